//! C11 — UnixStr search and path operations agree with their byte-string definitions.
//!
//! Oracle: naive references over the contents (bytes without the terminator). Operands are
//! placed so that they END at a PROT_NONE page: any read past an argument faults and is
//! reported through the crash policy of the orchestrator.
use proptest::prelude::*;
use rusl::string::unix_str::{UnixStr, UnixString};
use serde::{Deserialize, Serialize};

use crate::runner::{CaseReport, CaseResult, Ctx};
use crate::util::{all_strings, escape, with_nul, BStr, Guarded};
use crate::ensure;

#[derive(Debug, Clone, Serialize, Deserialize)]
pub struct Pair {
    pub h: BStr,
    pub n: BStr,
}

#[derive(Debug, Clone, Serialize, Deserialize)]
pub struct PathCase {
    pub p: BStr,
}

pub const ALPHA: [u8; 4] = [b'a', b'b', b'/', b'.'];

// ---------------------------------------------------------------- references

pub fn ref_find(h: &[u8], n: &[u8]) -> Option<usize> {
    if n.is_empty() {
        return Some(0);
    }
    if n.len() > h.len() {
        return None;
    }
    (0..=h.len() - n.len()).find(|&i| &h[i..i + n.len()] == n)
}

pub fn ref_common_prefix(a: &[u8], b: &[u8]) -> usize {
    let mut i = 0;
    while i < a.len() && i < b.len() && a[i] == b[i] {
        i += 1;
    }
    i
}

pub fn ref_join(a: &[u8], b: &[u8]) -> Vec<u8> {
    if a.is_empty() {
        return b.to_vec();
    }
    if b.is_empty() {
        return a.to_vec();
    }
    let a_sl = *a.last().unwrap() == b'/';
    let b_sl = b[0] == b'/';
    let mut out = a.to_vec();
    match (a_sl, b_sl) {
        (true, true) => out.extend_from_slice(&b[1..]),
        (true, false) | (false, true) => out.extend_from_slice(b),
        (false, false) => {
            out.push(b'/');
            out.extend_from_slice(b);
        }
    }
    out
}

/// Acceptable answers of `parent_path` for contents `p` (None = "no parent").
/// Where the documentation is ambiguous (trailing separator: the prose example and the
/// "split at the last separator" rule disagree; a double slash away from the split point:
/// "any double slash" vs. the tested behaviour) every documented reading is accepted.
pub fn ref_parent(p: &[u8]) -> Vec<Option<Vec<u8>>> {
    if p.len() < 2 {
        return vec![None];
    }
    let Some(last_sep) = p.iter().rposition(|&c| c == b'/') else {
        return vec![None];
    };
    let mut acc: Vec<Option<Vec<u8>>> = Vec::new();
    let has_double = p.windows(2).any(|w| w == b"//");
    let split = |idx: usize| -> Option<Vec<u8>> {
        if idx > 0 && p[idx - 1] == b'/' {
            return None; // double slash at the split
        }
        if idx == 0 {
            if p.len() == 1 {
                None
            } else {
                Some(b"/".to_vec())
            }
        } else {
            Some(p[..idx].to_vec())
        }
    };
    acc.push(split(last_sep));
    if last_sep == p.len() - 1 {
        // trailing separator: the doc example strips the trailing component instead
        let inner = &p[..p.len() - 1];
        match inner.iter().rposition(|&c| c == b'/') {
            Some(i) => acc.push(split(i)),
            None => acc.push(None),
        }
    }
    if has_double {
        acc.push(None);
    }
    acc
}

/// Acceptable answers of `path_file_name`.
pub fn ref_file_name(p: &[u8]) -> Vec<Option<Vec<u8>>> {
    match p.iter().rposition(|&c| c == b'/') {
        None => {
            // "split at the last separator": no separator. The implementation answers None;
            // the whole string would be an equally defensible reading, accept both.
            if p.is_empty() {
                vec![None]
            } else {
                vec![None, Some(p.to_vec())]
            }
        }
        Some(i) => {
            if i + 1 == p.len() {
                vec![None]
            } else {
                vec![Some(p[i + 1..].to_vec())]
            }
        }
    }
}

// ---------------------------------------------------------------- checks

pub struct Bufs {
    pub h: Guarded,
    pub n: Guarded,
    pub s: Guarded,
}

impl Bufs {
    pub fn new() -> Bufs {
        Bufs { h: Guarded::at_end(8192), n: Guarded::at_end(8192), s: Guarded::at_end(8192) }
    }
}

fn ustr(g: &Guarded) -> &UnixStr {
    unsafe { UnixStr::from_bytes_unchecked(g.as_ref()) }
}

pub fn check_pair(bufs: &mut Bufs, h: &[u8], n: &[u8]) -> CaseResult {
    let mut rep = CaseReport::new();
    bufs.h.reset_at_end(&with_nul(h));
    bufs.n.reset_at_end(&with_nul(n));
    bufs.s.reset_at_end(n); // unterminated, for &str / &[u8] operands
    let hs = ustr(&bufs.h);
    let ns = ustr(&bufs.n);
    let nbuf: &[u8] = bufs.s.as_ref();

    // find
    let exp = ref_find(h, n);
    let got = crate::runner::no_panic("UnixStr::find", || hs.find(ns))?;
    ensure!(got == exp, format!("UnixStr::find|wrong-index|{}", shape_find(h, n, got, exp)), "find({:?},{:?}) = {:?}, expected {:?}", escape(h), escape(n), got, exp);
    let got = crate::runner::no_panic("UnixStr::find_buf", || hs.find_buf(nbuf))?;
    ensure!(got == exp, format!("UnixStr::find_buf|wrong-index|{}", shape_find(h, n, got, exp)), "find_buf({:?},{:?}) = {:?}, expected {:?}", escape(h), escape(n), got, exp);

    // common prefix
    let exp_p = ref_common_prefix(h, n);
    let got = crate::runner::no_panic("UnixStr::match_up_to", || hs.match_up_to(ns))?;
    ensure!(got == exp_p, "UnixStr::match_up_to|wrong-length", "match_up_to({:?},{:?}) = {}, expected {}", escape(h), escape(n), got, exp_p);
    if let Ok(nstr) = core::str::from_utf8(nbuf) {
        let got = crate::runner::no_panic("UnixStr::match_up_to_str", || hs.match_up_to_str(nstr))?;
        ensure!(got == exp_p, "UnixStr::match_up_to_str|wrong-length", "match_up_to_str({:?},{:?}) = {}, expected {}", escape(h), escape(n), got, exp_p);
    }

    // suffix
    let exp_e = h.ends_with(n);
    let got = crate::runner::no_panic("UnixStr::ends_with", || hs.ends_with(ns))?;
    ensure!(got == exp_e, "UnixStr::ends_with|wrong-answer", "ends_with({:?},{:?}) = {}, expected {}", escape(h), escape(n), got, exp_e);

    // join (both orders are covered because the enumeration contains both orders)
    let exp_j = ref_join(h, n);
    let got: UnixString = crate::runner::no_panic("UnixStr::path_join", || hs.path_join(ns))?;
    let gs = got.as_slice();
    ensure!(!gs.is_empty() && gs[..gs.len() - 1] == exp_j[..], "UnixStr::path_join|wrong-bytes", "path_join({:?},{:?}) = {:?}, expected {:?}+NUL", escape(h), escape(n), escape(gs), escape(&exp_j));
    if let Ok(nstr) = core::str::from_utf8(nbuf) {
        let got: UnixString = crate::runner::no_panic("UnixStr::path_join_fmt", || hs.path_join_fmt(format_args!("{nstr}")))?;
        let gs = got.as_slice();
        ensure!(!gs.is_empty() && gs[..gs.len() - 1] == exp_j[..], "UnixStr::path_join_fmt|wrong-bytes", "path_join_fmt({:?},{:?}) = {:?}, expected {:?}+NUL", escape(h), escape(n), escape(gs), escape(&exp_j));
    }

    // the extension given as a literal format string (no arguments to format: `Arguments::as_str()` is Some, which
    // an implementation may treat as a case of its own) - a fixed set of literals against this base
    if n.len() <= 1 {
        macro_rules! lit_join {
            ($($l:literal),*) => {
                $({
                    let got: UnixString = crate::runner::no_panic("UnixStr::path_join_fmt", || hs.path_join_fmt(format_args!($l)))?;
                    let gs = got.as_slice();
                    let exp = ref_join(h, $l.as_bytes());
                    ensure!(!gs.is_empty() && gs[..gs.len() - 1] == exp[..], "UnixStr::path_join_fmt|wrong-bytes|literal format string", "path_join_fmt({:?}, format_args!({:?})) = {:?}, expected {:?}+NUL", escape(h), $l, escape(gs), escape(&exp));
                })*
            };
        }
        lit_join!("there", "/there", "a", "a/", "x/y", "//x", ".", "");
        rep.class("joined-with-literal-format-strings");
    }

    // operands that are owned strings the library made itself (from_format of the same text), used through Deref
    if h.len() <= 48 && n.len() <= 48 {
        if let (Ok(hstr), Ok(nstr)) = (core::str::from_utf8(h), core::str::from_utf8(n)) {
            let ho = crate::runner::no_panic("UnixString::from_format", || UnixString::from_format(format_args!("{hstr}")))?;
            let no = crate::runner::no_panic("UnixString::from_format", || UnixString::from_format(format_args!("{nstr}")))?;
            let got = crate::runner::no_panic("UnixStr::find", || ho.find(&no))?;
            ensure!(got == exp, "UnixStr::find|wrong-index|operands made by from_format", "find({:?},{:?}) on operands made by from_format = {:?}, expected {:?}", escape(h), escape(n), got, exp);
            let got = crate::runner::no_panic("UnixStr::ends_with", || ho.ends_with(&no))?;
            ensure!(got == exp_e, "UnixStr::ends_with|wrong-answer|operands made by from_format", "ends_with({:?},{:?}) on operands made by from_format = {}, expected {}", escape(h), escape(n), got, exp_e);
            let got = crate::runner::no_panic("UnixStr::find", || hs.find(&no))?;
            ensure!(got == exp, "UnixStr::find|wrong-index|needle made by from_format", "find({:?},{:?}) with the needle made by from_format = {:?}, expected {:?}", escape(h), escape(n), got, exp);
            let got = crate::runner::no_panic("UnixStr::find", || ho.find(ns))?;
            ensure!(got == exp, "UnixStr::find|wrong-index|haystack made by from_format", "find({:?},{:?}) with the haystack made by from_format = {:?}, expected {:?}", escape(h), escape(n), got, exp);
            rep.class("operands-made-by-from_format");
            rep.class_if(h.is_empty() || n.is_empty(), "empty-operand-made-by-from_format");
        }
    }

    rep.nontrivial_if((!n.is_empty() && h.len() >= n.len()) || h.contains(&b'/') || n.contains(&b'/'));
    rep.class_if(n.is_empty(), "empty-needle");
    rep.class_if(h == n && h.len() >= 7, "equal-operands-of-7-bytes-or-more");
    rep.class_if(h != n && exp_p >= 8, "common-prefix-of-8-bytes-or-more");
    rep.class_if(h != n && exp_p == n.len() && exp_p > 0, "needle-is-proper-prefix");
    rep.class_if(h != n && exp_p == h.len() && exp_p > 0, "haystack-is-proper-prefix");
    rep.class_if(h.is_empty(), "empty-haystack");
    rep.class_if(n.len() > h.len(), "needle-longer");
    if let Some(i) = exp {
        rep.class_if(!n.is_empty() && i + n.len() == h.len(), "match-at-very-end");
        rep.class_if(!n.is_empty() && i > 0, "match-not-at-start");
        // a proper prefix of the needle occurred earlier (partial match before the real one)
        rep.class_if(n.len() >= 2 && (0..i).any(|k| h[k] == n[0]), "partial-match-before");
    } else {
        rep.class_if(!n.is_empty() && n.len() <= h.len() && h.contains(&n[0]), "no-match-with-partial");
    }
    rep.class_if(exp_e && !n.is_empty(), "is-suffix");
    rep.class_if(!h.is_empty() && !n.is_empty() && h.last() == Some(&b'/') && n[0] == b'/', "join-two-seps");
    rep.class_if(!h.is_empty() && !n.is_empty() && h.last() != Some(&b'/') && n[0] != b'/', "join-no-sep");
    Ok(rep)
}

fn shape_find(h: &[u8], n: &[u8], got: Option<usize>, exp: Option<usize>) -> &'static str {
    let _ = h;
    if n.is_empty() {
        "empty needle"
    } else if got.is_some() && exp.is_none() {
        "reported match that is none"
    } else if got.is_none() && exp.is_some() {
        "missed match"
    } else {
        "other index"
    }
}

pub fn check_path(bufs: &mut Bufs, p: &[u8]) -> CaseResult {
    let mut rep = CaseReport::new();
    bufs.h.reset_at_end(&with_nul(p));
    let ps = ustr(&bufs.h);

    let acc = ref_parent(p);
    let got = crate::runner::no_panic("UnixStr::parent_path", || ps.parent_path())?;
    // contents = up to the first NUL or the whole buffer (termination itself is C10's business)
    let got_c: Option<Vec<u8>> = got.as_ref().map(|g| {
        let s = g.as_slice();
        match s.iter().position(|&c| c == 0) {
            Some(i) => s[..i].to_vec(),
            None => s.to_vec(),
        }
    });
    // C10's defect (missing terminator: the separator sits where the NUL should be) must not
    // be reported here as a C11 failure: compare modulo one trailing byte when unterminated.
    let unterminated = got.as_ref().map(|g| g.as_slice().last() != Some(&0)).unwrap_or(false);
    let matches = |cand: &Option<Vec<u8>>| -> bool {
        match (cand, &got_c) {
            (None, None) => true,
            (Some(c), Some(g)) => g == c || (unterminated && !g.is_empty() && &g[..g.len() - 1] == &c[..]) || (unterminated && c.as_slice() == b"/" && g.len() == 2 && g[0] == b'/'),
            _ => false,
        }
    };
    ensure!(acc.iter().any(matches), "UnixStr::parent_path|wrong-answer", "parent_path({:?}) = {:?}, acceptable {:?}", escape(p), got_c.as_ref().map(|g| escape(g)), acc.iter().map(|a| a.as_ref().map(|x| escape(x))).collect::<Vec<_>>());

    let acc_f = ref_file_name(p);
    let got = crate::runner::no_panic("UnixStr::path_file_name", || ps.path_file_name().map(|u| u.as_slice().to_vec()))?;
    let got_c = got.map(|mut g| {
        if g.last() == Some(&0) {
            g.pop();
        }
        g
    });
    ensure!(acc_f.contains(&got_c), "UnixStr::path_file_name|wrong-answer", "path_file_name({:?}) = {:?}, acceptable {:?}", escape(p), got_c.as_ref().map(|g| escape(g)), acc_f.iter().map(|a| a.as_ref().map(|x| escape(x))).collect::<Vec<_>>());

    rep.nontrivial_if(p.contains(&b'/'));
    rep.class_if(p.is_empty(), "empty");
    rep.class_if(p == b"/", "root");
    rep.class_if(p.len() > 1 && p[0] == b'/' && !p[1..].contains(&b'/'), "parent-is-root");
    rep.class_if(p.last() == Some(&b'/') && p.len() > 1, "trailing-sep");
    rep.class_if(p.windows(2).any(|w| w == b"//"), "double-sep");
    rep.class_if(!p.contains(&b'/') && !p.is_empty(), "no-sep");
    rep.class_if(p.iter().filter(|&&c| c == b'/').count() >= 2, "multi-component");
    Ok(rep)
}

/// `find_buf` and `match_up_to_str` take a plain byte / str operand, which - unlike a UnixStr - may hold NUL bytes
/// anywhere. The haystack's own terminator is then something such an operand can "match", and a scan that trusts
/// the terminator to stop it runs on behind the haystack (which here ends at an unmapped page).
/// Definitions: a needle with a NUL that is not its last byte occurs in no haystack (None); for a needle whose
/// only NUL is its last byte both readings of "the haystack" are accepted (contents only: None; contents plus
/// terminator: the index where the rest of the needle ends the haystack). Common prefix: with either reading.
pub fn check_nul_needle(bufs: &mut Bufs, h: &[u8], n: &[u8]) -> CaseResult {
    let mut rep = CaseReport::new();
    bufs.h.reset_at_end(&with_nul(h));
    bufs.s.reset_at_end(n);
    let hs = ustr(&bufs.h);
    let nbuf: &[u8] = bufs.s.as_ref();
    let first_nul = n.iter().position(|&c| c == 0);
    let interior = matches!(first_nul, Some(i) if i + 1 < n.len());
    let got = crate::runner::no_panic("UnixStr::find_buf", || hs.find_buf(nbuf))?;
    let hz = with_nul(h);
    let with_term = ref_find(&hz, n);
    let acceptable: Vec<Option<usize>> = if interior || first_nul.is_none() { vec![ref_find(h, n)] } else { vec![None, with_term] };
    ensure!(acceptable.contains(&got), format!("UnixStr::find_buf|wrong-index|needle with a NUL {}", if interior { "inside" } else { "at its end" }), "find_buf({:?},{:?}) = {:?}, acceptable {:?}", escape(h), escape(n), got, acceptable);
    if let Ok(nstr) = core::str::from_utf8(nbuf) {
        let got = crate::runner::no_panic("UnixStr::match_up_to_str", || hs.match_up_to_str(nstr))?;
        let acc = [ref_common_prefix(h, n), ref_common_prefix(&hz, n)];
        ensure!(acc.contains(&got), "UnixStr::match_up_to_str|wrong-length|operand with a NUL", "match_up_to_str({:?},{:?}) = {}, acceptable {:?}", escape(h), escape(n), got, acc);
        rep.class_if(first_nul == Some(h.len()) && n.len() > h.len() + 1 && n.starts_with(h), "operand-continues-behind-the-haystack-terminator");
    }
    rep.nontrivial = first_nul.is_some();
    rep.class_if(interior, "needle-with-a-NUL-inside");
    rep.class_if(!interior && first_nul.is_some(), "needle-ending-in-NUL");
    rep.class_if(first_nul.is_some() && n.len() <= h.len() + 1, "needle-no-longer-than-haystack-plus-terminator");
    Ok(rep)
}

/// haystack (no NUL) and a needle built from it: a tail of the haystack, a NUL, and what could lie behind
fn nul_needle_case() -> impl Strategy<Value = Pair> {
    let byte = || prop_oneof![8 => prop::sample::select(ALPHA.to_vec()), 1 => 1u8..=255u8];
    (prop::collection::vec(byte(), 0..24), any::<u16>(), prop::collection::vec(prop_oneof![6 => byte(), 1 => Just(0u8)], 0..6), 0u8..4).prop_map(|(h, at, behind, mode)| {
        let k = crate::runner::pick_idx(at, h.len() + 1);
        let mut n: Vec<u8> = match mode {
            0 => h[k..].to_vec(),          // a tail of the haystack, then the NUL: "matches" the terminator
            1 => h.clone(),                // the whole haystack (the common-prefix case)
            2 => h[..k].to_vec(),          // a head of the haystack: the NUL meets an ordinary byte
            _ => Vec::new(),
        };
        n.push(0);
        n.extend_from_slice(&behind);
        Pair { h: BStr(h), n: BStr(n) }
    })
}

fn long_string() -> impl Strategy<Value = Vec<u8>> {
    // mostly the small alphabet (so planted needles also occur by chance), some other bytes
    prop::collection::vec(prop_oneof![8 => prop::sample::select(ALPHA.to_vec()), 1 => 1u8..=255u8], 0..2048)
}

fn pair_rand() -> impl Strategy<Value = Pair> {
    // haystack with a planted needle at a generated position (or none), needle 0..40 bytes
    (long_string(), prop::collection::vec(prop_oneof![8 => prop::sample::select(ALPHA.to_vec()), 1 => 1u8..=255u8], 0..40), any::<u16>(), 0u8..4)
        .prop_map(|(mut h, n, pos, mode)| {
            match mode {
                0 => {}
                1 => {
                    // plant in the middle
                    let at = crate::runner::pick_idx(pos, h.len() + 1);
                    let tail = h.split_off(at);
                    h.extend_from_slice(&n);
                    h.extend_from_slice(&tail);
                }
                2 => h.extend_from_slice(&n), // at the very end
                _ => {
                    // near miss at the end: needle with last byte changed, then maybe the real one
                    if let Some((&l, init)) = n.split_last() {
                        h.extend_from_slice(init);
                        h.push(if l == b'a' { b'b' } else { b'a' });
                    }
                }
            }
            Pair { h: BStr(h), n: BStr(n) }
        })
}

/// operands built around a common prefix of generated length (0..=96, so that every length modulo a machine
/// word and modulo a vector width occurs many times), each continued by its own short tail (often empty: equal
/// operands, or one a proper prefix of the other) - the inputs on which common-prefix length, suffix test and
/// search at position 0 have something to say
fn pair_prefix() -> impl Strategy<Value = Pair> {
    let byte = || prop_oneof![8 => prop::sample::select(ALPHA.to_vec()), 1 => 1u8..=255u8];
    let tail = move || prop_oneof![3 => Just(Vec::new()), 3 => prop::collection::vec(byte(), 1..4), 1 => prop::collection::vec(byte(), 4..20)];
    (prop::collection::vec(byte(), 0..=96), tail(), tail(), any::<bool>()).prop_map(|(p, ta, tb, differ)| {
        let (mut h, mut n) = (p.clone(), p);
        h.extend_from_slice(&ta);
        n.extend_from_slice(&tb);
        // tails that happen to start alike lengthen the common prefix; optionally force a difference right at the seam
        if differ && !ta.is_empty() && !tb.is_empty() && ta[0] == tb[0] {
            let at = h.len() - ta.len();
            h[at] = if h[at] == b'a' { b'b' } else { b'a' };
        }
        Pair { h: BStr(h), n: BStr(n) }
    })
}

fn path_rand() -> impl Strategy<Value = PathCase> {
    prop::collection::vec(prop_oneof![3 => Just(b'/'), 6 => prop::sample::select(vec![b'a', b'b', b'.']), 1 => 1u8..=255u8], 0..600).prop_map(|p| PathCase { p: BStr(p) })
}

pub fn run(ctx: &Ctx) {
    let bufs = std::cell::RefCell::new(Bufs::new());

    // (1) exhaustive pairs, partitioned over workers
    if !ctx.is_replay() {
        let max_len = 5;
        let strings = all_strings(&ALPHA, max_len);
        let total = strings.len() * strings.len();
        let mut idx = 0usize;
        let mut ok = true;
        'outer: for h in &strings {
            for n in &strings {
                let mine = idx % ctx.nworkers as usize == ctx.worker as usize;
                idx += 1;
                if !mine {
                    continue;
                }
                let case = Pair { h: BStr(h.clone()), n: BStr(n.clone()) };
                ok = ctx.run_one("pair-exh", &case, || check_pair(&mut bufs.borrow_mut(), h, n));
                if !ok {
                    break 'outer;
                }
            }
        }
        if ok {
            ctx.note_exhaustive(format!("pair-exh: all {} ordered pairs of strings over {{a,b,/,.}} of length 0..={} (this worker: every {}th)", total, max_len, ctx.nworkers));
        }
        // every common-prefix length 0..=130 x every pair of tails from {"", "a", "b", "ab"}: equal operands, proper
        // prefixes either way, a difference right after the prefix - at every length modulo 8, 16, 32 and 64
        let tails: [&[u8]; 4] = [b"", b"a", b"b", b"ab"];
        let mut okx = true;
        let mut k = 0usize;
        'px: for plen in 0..=130usize {
            let pre: Vec<u8> = (0..plen).map(|i| ALPHA[(i * 7 + i / 5) % ALPHA.len()]).collect();
            for ta in tails {
                for tb in tails {
                    k += 1;
                    if k % ctx.nworkers as usize != ctx.worker as usize {
                        continue;
                    }
                    let (h, n) = ([&pre[..], ta].concat(), [&pre[..], tb].concat());
                    let case = Pair { h: BStr(h.clone()), n: BStr(n.clone()) };
                    okx = ctx.run_one("prefix-exh", &case, || check_pair(&mut bufs.borrow_mut(), &h, &n));
                    if !okx {
                        break 'px;
                    }
                }
            }
        }
        if okx {
            ctx.note_exhaustive(format!("prefix-exh: common prefix of every length 0..=130 x 16 tail pairs from {{\"\", a, b, ab}}: {} operand pairs", 131 * 16));
        }
        // exhaustive single paths
        let pstrings = all_strings(&ALPHA, 7);
        let mut okp = true;
        for (i, p) in pstrings.iter().enumerate() {
            if i % ctx.nworkers as usize != ctx.worker as usize {
                continue;
            }
            let case = PathCase { p: BStr(p.clone()) };
            okp = ctx.run_one("path-exh", &case, || check_path(&mut bufs.borrow_mut(), p));
            if !okp {
                break;
            }
        }
        if okp {
            ctx.note_exhaustive(format!("path-exh: all {} strings over {{a,b,/,.}} of length 0..=7", pstrings.len()));
        }
    } else {
        if let Some(c) = ctx.replay_case::<Pair>("pair-exh") {
            ctx.run_one("pair-exh", &c, || check_pair(&mut bufs.borrow_mut(), &c.h.0, &c.n.0));
        }
        if let Some(c) = ctx.replay_case::<Pair>("prefix-exh") {
            ctx.run_one("prefix-exh", &c, || check_pair(&mut bufs.borrow_mut(), &c.h.0, &c.n.0));
        }
        if let Some(c) = ctx.replay_case::<PathCase>("path-exh") {
            ctx.run_one("path-exh", &c, || check_path(&mut bufs.borrow_mut(), &c.p.0));
        }
    }

    // (2) random long operands with planted matches
    ctx.run_prop("pair-rand", ctx.cases(3000, 100_000), pair_rand(), |c: &Pair| check_pair(&mut bufs.borrow_mut(), &c.h.0, &c.n.0));
    if let Some(c) = ctx.replay_case::<Pair>("nul-needle-exh") {
        ctx.run_one("nul-needle-exh", &c, || check_nul_needle(&mut bufs.borrow_mut(), &c.h.0, &c.n.0));
    } else if !ctx.is_replay() {
        // every haystack of length 0..=3 over {a, b} x every needle of length 1..=4 over {a, b, NUL} that holds a NUL
        let hs = all_strings(&[b'a', b'b'], 3);
        let ns: Vec<Vec<u8>> = all_strings(&[b'a', b'b', 0], 4).into_iter().filter(|n| n.contains(&0)).collect();
        let mut ok = true;
        let mut k = 0usize;
        'nn: for h in &hs {
            for n in &ns {
                k += 1;
                if k % ctx.nworkers as usize != ctx.worker as usize {
                    continue;
                }
                let case = Pair { h: BStr(h.clone()), n: BStr(n.clone()) };
                ok = ctx.run_one("nul-needle-exh", &case, || check_nul_needle(&mut bufs.borrow_mut(), h, n));
                if !ok {
                    break 'nn;
                }
            }
        }
        if ok {
            ctx.note_exhaustive(format!("nul-needle-exh: {} haystacks (length 0..=3 over {{a,b}}) x {} byte/str operands of length 1..=4 over {{a,b,NUL}} holding a NUL", hs.len(), ns.len()));
        }
    }
    ctx.run_prop("nul-needle", ctx.cases(3000, 100_000), nul_needle_case(), |c: &Pair| check_nul_needle(&mut bufs.borrow_mut(), &c.h.0, &c.n.0));
    ctx.run_prop("pair-prefix", ctx.cases(3000, 100_000), pair_prefix(), |c: &Pair| check_pair(&mut bufs.borrow_mut(), &c.h.0, &c.n.0));
    ctx.run_prop("path-rand", ctx.cases(2000, 60_000), path_rand(), |c: &PathCase| check_path(&mut bufs.borrow_mut(), &c.p.0));
}
