//! C17 — io_uring rings: exactly-once, in-order hand-over both ways, across index wrap.
//!
//! The `IoUring` value is built over ordinary memory through the add-only hook
//! `IoUring::verif_from_raw_parts` (cargo feature `verif-hooks` of rusl); the harness plays the
//! kernel side of both rings. Oracle = two FIFO queues + slot ownership map.
use std::collections::VecDeque;
use std::mem::ManuallyDrop;
use std::sync::atomic::{AtomicU32, Ordering};

use proptest::prelude::*;
use rusl::platform::{Fd, IoUring, IoUringCompletionQueueEntry, IoUringParamFlags, IoUringSubmissionQueueEntry};
use serde::{Deserialize, Serialize};

use crate::ensure;
use crate::runner::{no_panic, CaseReport, CaseResult, Ctx};

#[derive(Debug, Clone, Copy, Serialize, Deserialize, PartialEq)]
pub enum Op {
    /// application: get_next_sqe_slot + fill with the next sequence number
    Get,
    /// application: flush_submission_queue
    Flush,
    /// application: get_next_cqe
    Reap,
    /// kernel: consume up to k published submissions
    KConsume(u8),
    /// kernel: post up to k completions (bounded by free CQ slots)
    KPost(u8),
}

#[derive(Debug, Clone, Serialize, Deserialize)]
pub struct RingCase {
    pub sq_log2: u8,
    pub cq_double: bool,
    pub sqe128: bool,
    pub cqe32: bool,
    pub sqpoll: bool,
    pub sq_start: u32,
    pub cq_start: u32,
    pub ops: Vec<Op>,
}

const SQE_SIZE: usize = 64;
const CQE_SIZE: usize = 16;

#[repr(C, align(128))]
struct Aligned([u8; 128]);

struct Sim {
    sq_khead: Box<AtomicU32>,
    sq_ktail: Box<AtomicU32>,
    sq_kflags: Box<AtomicU32>,
    sq_kdropped: Box<AtomicU32>,
    sq_array: Vec<AtomicU32>,
    sqes: Vec<Aligned>,
    cq_khead: Box<AtomicU32>,
    cq_ktail: Box<AtomicU32>,
    cq_koverflow: Box<AtomicU32>,
    cqes: Vec<Aligned>,
}

fn user_data_offset_sqe() -> usize {
    // offsetof(io_uring_sqe, user_data) = 32 (ABI)
    32
}

pub fn check_ring(c: &RingCase) -> CaseResult {
    let mut rep = CaseReport::new();
    let sq_entries: u32 = 1 << c.sq_log2.min(3);
    let cq_entries: u32 = if c.cq_double { sq_entries * 2 } else { sq_entries };
    let sq_shift = u32::from(c.sqe128);
    let cq_shift = u32::from(c.cqe32);
    let mut flags = IoUringParamFlags::empty();
    if c.sqe128 {
        flags = flags | IoUringParamFlags::IORING_SETUP_SQE128;
    }
    if c.cqe32 {
        flags = flags | IoUringParamFlags::IORING_SETUP_CQE32;
    }
    if c.sqpoll {
        flags = flags | IoUringParamFlags::IORING_SETUP_SQPOLL;
    }
    let sim = Sim {
        sq_khead: Box::new(AtomicU32::new(c.sq_start)),
        sq_ktail: Box::new(AtomicU32::new(c.sq_start)),
        sq_kflags: Box::new(AtomicU32::new(0)),
        sq_kdropped: Box::new(AtomicU32::new(0)),
        sq_array: (0..sq_entries).map(AtomicU32::new).collect(),
        sqes: (0..((sq_entries << sq_shift) as usize * SQE_SIZE).div_ceil(128) + 1).map(|_| Aligned([0; 128])).collect(),
        cq_khead: Box::new(AtomicU32::new(c.cq_start)),
        cq_ktail: Box::new(AtomicU32::new(c.cq_start)),
        cq_koverflow: Box::new(AtomicU32::new(0)),
        cqes: (0..((cq_entries << cq_shift) as usize * CQE_SIZE).div_ceil(128) + 1).map(|_| Aligned([0xEE; 128])).collect(),
    };
    let sqes_base = sim.sqes.as_ptr() as *mut u8;
    let cqes_base = sim.cqes.as_ptr() as *mut u8;
    let p = |a: &AtomicU32| a as *const AtomicU32 as *mut AtomicU32;
    let mut ring = ManuallyDrop::new(unsafe {
        IoUring::verif_from_raw_parts(
            Fd::try_new(1_000_000).unwrap(),
            flags,
            p(&sim.sq_khead),
            p(&sim.sq_ktail),
            p(&sim.sq_kflags),
            p(&sim.sq_kdropped),
            sim.sq_array.as_ptr() as *mut AtomicU32,
            sqes_base as *mut IoUringSubmissionQueueEntry,
            sq_entries,
            c.sq_start,
            c.sq_start,
            p(&sim.cq_khead),
            p(&sim.cq_ktail),
            p(&sim.cq_koverflow),
            cqes_base as *mut IoUringCompletionQueueEntry,
            cq_entries,
        )
    });

    // model
    let mut m_obtained: u64 = 0; // slots handed out (== sequence numbers stamped)
    let mut m_published: u64 = 0; // flushed
    let mut m_consumed: u64 = 0; // consumed by the kernel
    let mut owned = vec![false; sq_entries as usize]; // slot handed out / published, not yet consumed
    let mut cq_model: VecDeque<u64> = VecDeque::new();
    let mut c_posted: u64 = 0;
    let mut c_reaped: u64 = 0;
    let mut cq_was_full = false;
    let mut sq_was_full = false;

    let sq_slot_size = SQE_SIZE << sq_shift;
    let cq_slot_size = CQE_SIZE << cq_shift;
    let res_of = |seq: u64| -> i32 { (seq.wrapping_mul(2_654_435_761) as u32 >> 1) as i32 };

    for (step, op) in c.ops.iter().enumerate() {
        match *op {
            Op::Get => {
                let got = no_panic("IoUring::get_next_sqe_slot", || ring.get_next_sqe_slot())?;
                let in_flight = m_obtained - m_consumed;
                let expect_some = in_flight < u64::from(sq_entries);
                if !expect_some {
                    sq_was_full = true;
                }
                match (got, expect_some) {
                    (Some(slot), true) => {
                        let idx = ((c.sq_start as u64 + m_obtained) as u32 & (sq_entries - 1)) as usize;
                        let exp_ptr = unsafe { sqes_base.add(idx * sq_slot_size) };
                        ensure!(slot as *mut u8 == exp_ptr, "get_next_sqe_slot|wrong-slot", "step {step}: slot pointer is entry offset {} bytes, expected entry {} (offset {})", (slot as usize).wrapping_sub(sqes_base as usize), idx, idx * sq_slot_size);
                        ensure!(!owned[idx], "get_next_sqe_slot|slot-reused-before-consumed", "step {step}: slot {idx} handed out again before the kernel consumed it");
                        owned[idx] = true;
                        unsafe { (slot as *mut u8).add(user_data_offset_sqe()).cast::<u64>().write(m_obtained) };
                        m_obtained += 1;
                    }
                    (None, false) => {}
                    (Some(_), false) => {
                        crate::fail!("get_next_sqe_slot|slot-while-full", "step {step}: returned a slot although {in_flight} of {sq_entries} entries are unconsumed");
                    }
                    (None, true) => {
                        crate::fail!("get_next_sqe_slot|none-while-free", "step {step}: returned None although only {in_flight} of {sq_entries} entries are unconsumed (ktail={:#x} khead={:#x})", sim.sq_ktail.load(Ordering::Relaxed), sim.sq_khead.load(Ordering::Relaxed));
                    }
                }
            }
            Op::Flush => {
                let got = no_panic("IoUring::flush_submission_queue", || ring.flush_submission_queue())?;
                m_published = m_obtained;
                let exp = (m_obtained - m_consumed) as u32;
                ensure!(got == exp, "flush_submission_queue|wrong-pending-count", "step {step}: flush returned {got}, expected {exp} pending");
                let kt = sim.sq_ktail.load(Ordering::Acquire);
                let exp_kt = (c.sq_start as u64 + m_published) as u32;
                ensure!(kt == exp_kt, "flush_submission_queue|wrong-ktail", "step {step}: published ktail {kt:#x}, expected {exp_kt:#x}");
            }
            Op::KConsume(k) => {
                let kh = sim.sq_khead.load(Ordering::Relaxed);
                let kt = sim.sq_ktail.load(Ordering::Acquire);
                let avail = kt.wrapping_sub(kh);
                ensure!(u64::from(avail) == m_published - m_consumed, "kernel-view|wrong-available-count", "step {step}: kernel sees {avail} entries (khead={kh:#x} ktail={kt:#x}), model has {} published and unconsumed", m_published - m_consumed);
                let n = u32::from(k).min(avail);
                for i in 0..n {
                    let pos = kh.wrapping_add(i);
                    let idx = sim.sq_array[(pos & (sq_entries - 1)) as usize].load(Ordering::Acquire) as usize;
                    ensure!(idx < sq_entries as usize, "kernel-view|bad-array-index", "step {step}: sq_array holds {idx}");
                    let ud = unsafe { sqes_base.add(idx * sq_slot_size + user_data_offset_sqe()).cast::<u64>().read() };
                    ensure!(ud == m_consumed, "kernel-view|out-of-order-or-duplicate", "step {step}: kernel consumed an entry stamped {ud}, expected sequence {}", m_consumed);
                    ensure!(owned[idx], "kernel-view|unowned-slot", "step {step}: consumed slot {idx} that the application never filled");
                    owned[idx] = false;
                    m_consumed += 1;
                }
                sim.sq_khead.store(kh.wrapping_add(n), Ordering::Release);
            }
            Op::KPost(k) => {
                let kh = sim.cq_khead.load(Ordering::Acquire);
                let kt = sim.cq_ktail.load(Ordering::Relaxed);
                let used = kt.wrapping_sub(kh);
                ensure!(u64::from(used) == c_posted - c_reaped, "kernel-view|cq-head-not-advanced-by-one", "step {step}: CQ holds {used} by its indices (khead={kh:#x} ktail={kt:#x}), model {}", c_posted - c_reaped);
                let free = cq_entries - used;
                let n = u32::from(k).min(free);
                for i in 0..n {
                    let pos = kt.wrapping_add(i);
                    let slot = unsafe { cqes_base.add((((pos & (cq_entries - 1)) << cq_shift) as usize) * CQE_SIZE) };
                    unsafe {
                        slot.cast::<u64>().write(c_posted);
                        slot.add(8).cast::<i32>().write(res_of(c_posted));
                        slot.add(12).cast::<u32>().write(c_posted as u32 ^ 0xA5A5_0000);
                    }
                    let _ = cq_slot_size;
                    cq_model.push_back(c_posted);
                    c_posted += 1;
                }
                sim.cq_ktail.store(kt.wrapping_add(n), Ordering::Release);
                if c_posted - c_reaped == u64::from(cq_entries) {
                    cq_was_full = true;
                }
            }
            Op::Reap => {
                let got = no_panic("IoUring::get_next_cqe", || ring.get_next_cqe().map(|cqe| (cqe as *const IoUringCompletionQueueEntry as usize, cqe.0.user_data, cqe.0.res, cqe.0.flags)))?;
                match (got, cq_model.front().copied()) {
                    (Some((ptr, ud, res, fl)), Some(exp)) => {
                        ensure!(ud == exp && res == res_of(exp) && fl == (exp as u32 ^ 0xA5A5_0000), "get_next_cqe|wrong-completion", "step {step}: returned completion user_data={ud} res={res}, expected the oldest unreturned one ({exp}, res {})", res_of(exp));
                        let pos = (c.cq_start as u64 + c_reaped) as u32;
                        let exp_ptr = cqes_base as usize + (((pos & (cq_entries - 1)) << cq_shift) as usize) * CQE_SIZE;
                        ensure!(ptr == exp_ptr, "get_next_cqe|wrong-slot", "step {step}: completion read from offset {}, expected {}", ptr.wrapping_sub(cqes_base as usize), exp_ptr - cqes_base as usize);
                        cq_model.pop_front();
                        c_reaped += 1;
                        let kh = sim.cq_khead.load(Ordering::Acquire);
                        let exp_kh = (c.cq_start as u64 + c_reaped) as u32;
                        ensure!(kh == exp_kh, "get_next_cqe|head-not-advanced-by-one", "step {step}: CQ khead {kh:#x}, expected {exp_kh:#x}");
                    }
                    (None, None) => {}
                    (None, Some(exp)) => {
                        crate::fail!("get_next_cqe|none-while-pending", "step {step}: {} completions pending (oldest {exp}) but get_next_cqe returned None (chead={:#x} ctail={:#x})", cq_model.len(), sim.cq_khead.load(Ordering::Relaxed), sim.cq_ktail.load(Ordering::Relaxed));
                    }
                    (Some((_, ud, _, _)), None) => {
                        crate::fail!("get_next_cqe|some-while-empty", "step {step}: returned a completion (user_data {ud}) although none is pending");
                    }
                }
            }
        }
    }
    let crossed = |start: u32, n: u64, edge: u64| -> bool {
        let s = start as u64;
        // counter went from < edge to >= edge (mod 2^32 for edge == 2^32)
        if edge == 1 << 32 {
            s + n >= 1 << 32 && n > 0
        } else {
            s < edge && s + n >= edge
        }
    };
    let wrapped = crossed(c.sq_start, m_obtained, 1 << 32) || crossed(c.cq_start, c_posted, 1 << 32);
    let half = crossed(c.sq_start, m_obtained, 1 << 31) || crossed(c.cq_start, c_posted, 1 << 31);
    rep.nontrivial_if(wrapped || half || cq_was_full);
    rep.class_if(wrapped, "counter-crossed-2^32");
    rep.class_if(half, "counter-crossed-2^31");
    rep.class_if(cq_was_full, "cq-full");
    rep.class_if(sq_was_full, "sq-full-none");
    rep.class_if(c_reaped > 0, "reaped");
    rep.class_if(m_consumed > u64::from(sq_entries), "sq-slots-cycled");
    rep.class_if(c.sqe128, "sqe128");
    rep.class_if(c.cqe32, "cqe32");
    rep.class_if(sq_entries == 1, "ring-size-1");
    Ok(rep)
}

fn start_value(entries: u32) -> impl Strategy<Value = u32> {
    let span = 2 * entries.max(1) + 2;
    prop_oneof![
        1 => Just(0u32),
        1 => Just(1u32),
        2 => (0..=span).prop_map(|k| (1u32 << 31).wrapping_sub(k)),
        1 => (0..=span).prop_map(|k| (1u32 << 31).wrapping_add(k)),
        5 => (0..=span).prop_map(|k| u32::MAX - k),
        1 => any::<u32>(),
    ]
}

fn ops() -> impl Strategy<Value = Vec<Op>> {
    let op = prop_oneof![
        4 => Just(Op::Get),
        2 => Just(Op::Flush),
        4 => Just(Op::Reap),
        3 => (1u8..=8).prop_map(Op::KConsume),
        3 => (1u8..=9).prop_map(Op::KPost),
    ];
    prop::collection::vec(op, 0..200)
}

pub fn ring_case() -> impl Strategy<Value = RingCase> {
    (0u8..=3, any::<bool>(), prop::bool::weighted(0.25), prop::bool::weighted(0.25), prop::bool::weighted(0.3))
        .prop_flat_map(|(sq_log2, cq_double, sqe128, cqe32, sqpoll)| {
            let e = 1u32 << sq_log2;
            (Just((sq_log2, cq_double, sqe128, cqe32, sqpoll)), start_value(e), start_value(e * 2), ops())
        })
        .prop_map(|((sq_log2, cq_double, sqe128, cqe32, sqpoll), sq_start, cq_start, ops)| RingCase { sq_log2, cq_double, sqe128, cqe32, sqpoll, sq_start, cq_start, ops })
}

pub fn run(ctx: &Ctx) {
    ctx.run_prop("ring", ctx.cases(6000, 250_000), ring_case(), check_ring);
}
