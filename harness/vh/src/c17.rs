//! C17 — io_uring rings: exactly-once, in-order hand-over both ways, across index wrap.
//!
//! The `IoUring` value is built over ordinary memory through the add-only hook
//! `IoUring::verif_from_raw_parts` (cargo feature `verif-hooks` of rusl); the harness plays the
//! kernel side of both rings. Oracle = two FIFO queues + slot ownership map.
use std::collections::VecDeque;
use std::mem::ManuallyDrop;
use std::sync::atomic::{AtomicU32, Ordering};

use proptest::prelude::*;
use rusl::platform::{Fd, IoUring, IoUringCompletionQueueEntry, IoUringParamFlags, IoUringSubmissionQueueEntry};
use serde::{Deserialize, Serialize};

use crate::ensure;
use crate::runner::{no_panic, CaseReport, CaseResult, Ctx};

#[derive(Debug, Clone, Copy, Serialize, Deserialize, PartialEq)]
pub enum Op {
    /// application: get_next_sqe_slot + fill with the next sequence number
    Get,
    /// application: flush_submission_queue
    Flush,
    /// application: get_next_cqe
    Reap,
    /// kernel: consume up to k published submissions
    KConsume(u8),
    /// kernel: post up to k completions (bounded by free CQ slots)
    KPost(u8),
    /// kernel: the flags word of the submission ring becomes this value (bit 0 NEED_WAKEUP, bit 1
    /// CQ_OVERFLOW, bit 2 TASKRUN - the kernel sets them independently of each other)
    KFlags(u8),
}

#[derive(Debug, Clone, Serialize, Deserialize)]
pub struct RingCase {
    pub sq_log2: u8,
    pub cq_double: bool,
    pub sqe128: bool,
    pub cqe32: bool,
    pub sqpoll: bool,
    pub sq_start: u32,
    pub cq_start: u32,
    pub ops: Vec<Op>,
}

const SQE_SIZE: usize = 64;
const CQE_SIZE: usize = 16;

#[repr(C, align(128))]
struct Aligned([u8; 128]);

struct Sim {
    sq_khead: Box<AtomicU32>,
    sq_ktail: Box<AtomicU32>,
    sq_kflags: Box<AtomicU32>,
    sq_kdropped: Box<AtomicU32>,
    sq_array: Vec<AtomicU32>,
    sqes: Vec<Aligned>,
    cq_khead: Box<AtomicU32>,
    cq_ktail: Box<AtomicU32>,
    cq_koverflow: Box<AtomicU32>,
    cqes: Vec<Aligned>,
}

fn user_data_offset_sqe() -> usize {
    // offsetof(io_uring_sqe, user_data) = 32 (ABI)
    32
}

pub fn check_ring(c: &RingCase) -> CaseResult {
    let mut rep = CaseReport::new();
    let sq_entries: u32 = 1 << c.sq_log2.min(3);
    let cq_entries: u32 = if c.cq_double { sq_entries * 2 } else { sq_entries };
    let sq_shift = u32::from(c.sqe128);
    let cq_shift = u32::from(c.cqe32);
    let mut flags = IoUringParamFlags::empty();
    if c.sqe128 {
        flags = flags | IoUringParamFlags::IORING_SETUP_SQE128;
    }
    if c.cqe32 {
        flags = flags | IoUringParamFlags::IORING_SETUP_CQE32;
    }
    if c.sqpoll {
        flags = flags | IoUringParamFlags::IORING_SETUP_SQPOLL;
    }
    let sim = Sim {
        sq_khead: Box::new(AtomicU32::new(c.sq_start)),
        sq_ktail: Box::new(AtomicU32::new(c.sq_start)),
        sq_kflags: Box::new(AtomicU32::new(0)),
        sq_kdropped: Box::new(AtomicU32::new(0)),
        sq_array: (0..sq_entries).map(AtomicU32::new).collect(),
        sqes: (0..((sq_entries << sq_shift) as usize * SQE_SIZE).div_ceil(128) + 1).map(|_| Aligned([0; 128])).collect(),
        cq_khead: Box::new(AtomicU32::new(c.cq_start)),
        cq_ktail: Box::new(AtomicU32::new(c.cq_start)),
        cq_koverflow: Box::new(AtomicU32::new(0)),
        cqes: (0..((cq_entries << cq_shift) as usize * CQE_SIZE).div_ceil(128) + 1).map(|_| Aligned([0xEE; 128])).collect(),
    };
    let sqes_base = sim.sqes.as_ptr() as *mut u8;
    let cqes_base = sim.cqes.as_ptr() as *mut u8;
    let p = |a: &AtomicU32| a as *const AtomicU32 as *mut AtomicU32;
    let mut ring = ManuallyDrop::new(unsafe {
        IoUring::verif_from_raw_parts(
            Fd::try_new(1_000_000).unwrap(),
            flags,
            p(&sim.sq_khead),
            p(&sim.sq_ktail),
            p(&sim.sq_kflags),
            p(&sim.sq_kdropped),
            sim.sq_array.as_ptr() as *mut AtomicU32,
            sqes_base as *mut IoUringSubmissionQueueEntry,
            sq_entries,
            c.sq_start,
            c.sq_start,
            p(&sim.cq_khead),
            p(&sim.cq_ktail),
            p(&sim.cq_koverflow),
            cqes_base as *mut IoUringCompletionQueueEntry,
            cq_entries,
        )
    });

    // model
    let mut m_obtained: u64 = 0; // slots handed out (== sequence numbers stamped)
    let mut m_published: u64 = 0; // flushed
    let mut m_consumed: u64 = 0; // consumed by the kernel
    let mut owned = vec![false; sq_entries as usize]; // slot handed out / published, not yet consumed
    let mut cq_model: VecDeque<u64> = VecDeque::new();
    let mut c_posted: u64 = 0;
    let mut c_reaped: u64 = 0;
    let mut cq_was_full = false;
    let mut sq_was_full = false;

    let sq_slot_size = SQE_SIZE << sq_shift;
    let cq_slot_size = CQE_SIZE << cq_shift;
    let res_of = |seq: u64| -> i32 { (seq.wrapping_mul(2_654_435_761) as u32 >> 1) as i32 };

    let mut kflags_model = 0u32;
    let mut flag_mixes = false;
    for (step, op) in c.ops.iter().enumerate() {
        // the application's view of "the poller sleeps" is bit 0 of the flags word, whatever else is set
        let nw = no_panic("IoUring::needs_wakeup", || ring.needs_wakeup())?;
        ensure!(nw == (kflags_model & 1 != 0), "needs_wakeup|wrong-answer", "step {step}: the kernel's flags word is {kflags_model:#x} (bit 0 = the submission thread sleeps and must be woken), needs_wakeup() = {nw}");
        match *op {
            Op::KFlags(v) => {
                kflags_model = u32::from(v & 7);
                sim.sq_kflags.store(kflags_model, Ordering::SeqCst);
                if kflags_model & 1 != 0 && kflags_model != 1 {
                    flag_mixes = true;
                }
            }
            Op::Get => {
                let got = no_panic("IoUring::get_next_sqe_slot", || ring.get_next_sqe_slot())?;
                let in_flight = m_obtained - m_consumed;
                let expect_some = in_flight < u64::from(sq_entries);
                if !expect_some {
                    sq_was_full = true;
                }
                match (got, expect_some) {
                    (Some(slot), true) => {
                        let idx = ((c.sq_start as u64 + m_obtained) as u32 & (sq_entries - 1)) as usize;
                        let exp_ptr = unsafe { sqes_base.add(idx * sq_slot_size) };
                        ensure!(slot as *mut u8 == exp_ptr, "get_next_sqe_slot|wrong-slot", "step {step}: slot pointer is entry offset {} bytes, expected entry {} (offset {})", (slot as usize).wrapping_sub(sqes_base as usize), idx, idx * sq_slot_size);
                        ensure!(!owned[idx], "get_next_sqe_slot|slot-reused-before-consumed", "step {step}: slot {idx} handed out again before the kernel consumed it");
                        owned[idx] = true;
                        unsafe { (slot as *mut u8).add(user_data_offset_sqe()).cast::<u64>().write(m_obtained) };
                        m_obtained += 1;
                    }
                    (None, false) => {}
                    (Some(_), false) => {
                        crate::fail!("get_next_sqe_slot|slot-while-full", "step {step}: returned a slot although {in_flight} of {sq_entries} entries are unconsumed");
                    }
                    (None, true) => {
                        crate::fail!("get_next_sqe_slot|none-while-free", "step {step}: returned None although only {in_flight} of {sq_entries} entries are unconsumed (ktail={:#x} khead={:#x})", sim.sq_ktail.load(Ordering::Relaxed), sim.sq_khead.load(Ordering::Relaxed));
                    }
                }
            }
            Op::Flush => {
                let got = no_panic("IoUring::flush_submission_queue", || ring.flush_submission_queue())?;
                m_published = m_obtained;
                let exp = (m_obtained - m_consumed) as u32;
                ensure!(got == exp, "flush_submission_queue|wrong-pending-count", "step {step}: flush returned {got}, expected {exp} pending");
                let kt = sim.sq_ktail.load(Ordering::Acquire);
                let exp_kt = (c.sq_start as u64 + m_published) as u32;
                ensure!(kt == exp_kt, "flush_submission_queue|wrong-ktail", "step {step}: published ktail {kt:#x}, expected {exp_kt:#x}");
            }
            Op::KConsume(k) => {
                let kh = sim.sq_khead.load(Ordering::Relaxed);
                let kt = sim.sq_ktail.load(Ordering::Acquire);
                let avail = kt.wrapping_sub(kh);
                ensure!(u64::from(avail) == m_published - m_consumed, "kernel-view|wrong-available-count", "step {step}: kernel sees {avail} entries (khead={kh:#x} ktail={kt:#x}), model has {} published and unconsumed", m_published - m_consumed);
                let n = u32::from(k).min(avail);
                for i in 0..n {
                    let pos = kh.wrapping_add(i);
                    let idx = sim.sq_array[(pos & (sq_entries - 1)) as usize].load(Ordering::Acquire) as usize;
                    ensure!(idx < sq_entries as usize, "kernel-view|bad-array-index", "step {step}: sq_array holds {idx}");
                    let ud = unsafe { sqes_base.add(idx * sq_slot_size + user_data_offset_sqe()).cast::<u64>().read() };
                    ensure!(ud == m_consumed, "kernel-view|out-of-order-or-duplicate", "step {step}: kernel consumed an entry stamped {ud}, expected sequence {}", m_consumed);
                    ensure!(owned[idx], "kernel-view|unowned-slot", "step {step}: consumed slot {idx} that the application never filled");
                    owned[idx] = false;
                    m_consumed += 1;
                }
                sim.sq_khead.store(kh.wrapping_add(n), Ordering::Release);
            }
            Op::KPost(k) => {
                let kh = sim.cq_khead.load(Ordering::Acquire);
                let kt = sim.cq_ktail.load(Ordering::Relaxed);
                let used = kt.wrapping_sub(kh);
                ensure!(u64::from(used) == c_posted - c_reaped, "kernel-view|cq-head-not-advanced-by-one", "step {step}: CQ holds {used} by its indices (khead={kh:#x} ktail={kt:#x}), model {}", c_posted - c_reaped);
                let free = cq_entries - used;
                let n = u32::from(k).min(free);
                for i in 0..n {
                    let pos = kt.wrapping_add(i);
                    let slot = unsafe { cqes_base.add((((pos & (cq_entries - 1)) << cq_shift) as usize) * CQE_SIZE) };
                    unsafe {
                        slot.cast::<u64>().write(c_posted);
                        slot.add(8).cast::<i32>().write(res_of(c_posted));
                        slot.add(12).cast::<u32>().write(c_posted as u32 ^ 0xA5A5_0000);
                    }
                    let _ = cq_slot_size;
                    cq_model.push_back(c_posted);
                    c_posted += 1;
                }
                sim.cq_ktail.store(kt.wrapping_add(n), Ordering::Release);
                if c_posted - c_reaped == u64::from(cq_entries) {
                    cq_was_full = true;
                }
            }
            Op::Reap => {
                let got = no_panic("IoUring::get_next_cqe", || ring.get_next_cqe().map(|cqe| (cqe as *const IoUringCompletionQueueEntry as usize, cqe.0.user_data, cqe.0.res, cqe.0.flags)))?;
                match (got, cq_model.front().copied()) {
                    (Some((ptr, ud, res, fl)), Some(exp)) => {
                        ensure!(ud == exp && res == res_of(exp) && fl == (exp as u32 ^ 0xA5A5_0000), "get_next_cqe|wrong-completion", "step {step}: returned completion user_data={ud} res={res}, expected the oldest unreturned one ({exp}, res {})", res_of(exp));
                        let pos = (c.cq_start as u64 + c_reaped) as u32;
                        let exp_ptr = cqes_base as usize + (((pos & (cq_entries - 1)) << cq_shift) as usize) * CQE_SIZE;
                        ensure!(ptr == exp_ptr, "get_next_cqe|wrong-slot", "step {step}: completion read from offset {}, expected {}", ptr.wrapping_sub(cqes_base as usize), exp_ptr - cqes_base as usize);
                        cq_model.pop_front();
                        c_reaped += 1;
                        let kh = sim.cq_khead.load(Ordering::Acquire);
                        let exp_kh = (c.cq_start as u64 + c_reaped) as u32;
                        ensure!(kh == exp_kh, "get_next_cqe|head-not-advanced-by-one", "step {step}: CQ khead {kh:#x}, expected {exp_kh:#x}");
                    }
                    (None, None) => {}
                    (None, Some(exp)) => {
                        crate::fail!("get_next_cqe|none-while-pending", "step {step}: {} completions pending (oldest {exp}) but get_next_cqe returned None (chead={:#x} ctail={:#x})", cq_model.len(), sim.cq_khead.load(Ordering::Relaxed), sim.cq_ktail.load(Ordering::Relaxed));
                    }
                    (Some((_, ud, _, _)), None) => {
                        crate::fail!("get_next_cqe|some-while-empty", "step {step}: returned a completion (user_data {ud}) although none is pending");
                    }
                }
            }
        }
    }
    let crossed = |start: u32, n: u64, edge: u64| -> bool {
        let s = start as u64;
        // counter went from < edge to >= edge (mod 2^32 for edge == 2^32)
        if edge == 1 << 32 {
            s + n >= 1 << 32 && n > 0
        } else {
            s < edge && s + n >= edge
        }
    };
    let wrapped = crossed(c.sq_start, m_obtained, 1 << 32) || crossed(c.cq_start, c_posted, 1 << 32);
    let half = crossed(c.sq_start, m_obtained, 1 << 31) || crossed(c.cq_start, c_posted, 1 << 31);
    rep.nontrivial_if(wrapped || half || cq_was_full);
    rep.class_if(wrapped, "counter-crossed-2^32");
    rep.class_if(half, "counter-crossed-2^31");
    rep.class_if(cq_was_full, "cq-full");
    rep.class_if(flag_mixes, "need-wakeup-together-with-other-flag-bits");
    rep.class_if(sq_was_full, "sq-full-none");
    rep.class_if(c_reaped > 0, "reaped");
    rep.class_if(m_consumed > u64::from(sq_entries), "sq-slots-cycled");
    rep.class_if(c.sqe128, "sqe128");
    rep.class_if(c.cqe32, "cqe32");
    rep.class_if(sq_entries == 1, "ring-size-1");
    Ok(rep)
}

fn start_value(entries: u32) -> impl Strategy<Value = u32> {
    let span = 2 * entries.max(1) + 2;
    prop_oneof![
        1 => Just(0u32),
        1 => Just(1u32),
        2 => (0..=span).prop_map(|k| (1u32 << 31).wrapping_sub(k)),
        1 => (0..=span).prop_map(|k| (1u32 << 31).wrapping_add(k)),
        5 => (0..=span).prop_map(|k| u32::MAX - k),
        1 => any::<u32>(),
    ]
}

fn ops() -> impl Strategy<Value = Vec<Op>> {
    let op = prop_oneof![
        4 => Just(Op::Get),
        2 => Just(Op::Flush),
        4 => Just(Op::Reap),
        3 => (1u8..=8).prop_map(Op::KConsume),
        3 => (1u8..=9).prop_map(Op::KPost),
        1 => (0u8..8).prop_map(Op::KFlags),
    ];
    prop::collection::vec(op, 0..200)
}

pub fn ring_case() -> impl Strategy<Value = RingCase> {
    (0u8..=3, any::<bool>(), prop::bool::weighted(0.25), prop::bool::weighted(0.25), prop::bool::weighted(0.3))
        .prop_flat_map(|(sq_log2, cq_double, sqe128, cqe32, sqpoll)| {
            let e = 1u32 << sq_log2;
            (Just((sq_log2, cq_double, sqe128, cqe32, sqpoll)), start_value(e), start_value(e * 2), ops())
        })
        .prop_map(|((sq_log2, cq_double, sqe128, cqe32, sqpoll), sq_start, cq_start, ops)| RingCase { sq_log2, cq_double, sqe128, cqe32, sqpoll, sq_start, cq_start, ops })
}

// ------------------------------------------------------------------------------------------
// "real": the same hand-over judged against the real kernel, on rings made by setup_io_uring
// (the simulated kernel above never sees what set-up prepares: ring sizes that are not powers of
// two, the submission index array, the offsets the kernel reports)
// ------------------------------------------------------------------------------------------

#[derive(Debug, Clone, Copy, Serialize, Deserialize, PartialEq)]
pub enum ROp {
    /// get_next_sqe_slot + fill (NOP carrying the next sequence number), up to k times
    Fill(u8),
    Flush,
    /// io_uring_enter submitting everything that has been flushed
    Enter,
    /// get_next_cqe up to k times
    Reap(u8),
}

#[derive(Debug, Clone, Serialize, Deserialize)]
pub struct RealCase {
    pub entries: u32,
    pub ops: Vec<ROp>,
    /// submissions are not held back to what the completion ring has room for: completions beyond its size wait
    /// in the kernel until an `io_uring_enter(fd, 0, 0, GETEVENTS)` moves them in (the documented way to collect
    /// them without waiting), which the harness issues when the ring runs dry with completions still owed
    #[serde(default)]
    pub overflow: bool,
}

fn check_real(c: &RealCase) -> CaseResult {
    use rusl::io_uring::{io_uring_enter, setup_io_uring};
    use rusl::platform::IoUringEnterFlags;
    let mut rep = CaseReport::new();
    let sq_entries = c.entries.next_power_of_two();
    let cq_entries = 2 * sq_entries;
    let mut ring = match crate::runner::catch(|| setup_io_uring(c.entries, IoUringParamFlags::empty(), 0, 0)) {
        Ok(Ok(r)) => r,
        Ok(Err(e)) => crate::fail!("setup_io_uring|error", "setup_io_uring({}, no flags) failed: {e}", c.entries),
        Err((loc, msg)) => crate::fail!(format!("setup_io_uring|panic|{loc}"), "{msg}"),
    };
    let fd = ring.fd;
    let mut seq = 0u64; // next sequence number to stamp
    let mut unflushed = 0u32; // filled, not flushed
    let mut flushed = 0u32; // flushed, not handed to the kernel
    let mut posted: VecDeque<u64> = VecDeque::new(); // completions the kernel owes us, in submission order
    let mut submitted_total = 0u64;
    let mut sq_was_full = false;
    let mut overflow_collected = false;
    // (unless the case asks for overflow) every step is clamped so that the completion ring cannot overflow (overflow handling is the
    // kernel's business, not the wrapper's)
    let mut tail: Vec<ROp> = vec![ROp::Flush, ROp::Reap(255), ROp::Reap(255), ROp::Enter, ROp::Reap(255), ROp::Reap(255)];
    let ops: Vec<ROp> = c.ops.iter().copied().chain(tail.drain(..)).collect();
    for (step, op) in ops.iter().enumerate() {
        match *op {
            ROp::Fill(k) => {
                for _ in 0..k {
                    let in_ring = unflushed + flushed;
                    let slot = no_panic("IoUring::get_next_sqe_slot", || ring.get_next_sqe_slot().map(|p| p as usize))?;
                    match slot {
                        None => {
                            ensure!(in_ring >= sq_entries, "real|get_next_sqe_slot|none-while-free", "step {step}: None with {in_ring} of {sq_entries} slots in use (setup_io_uring({}))", c.entries);
                            sq_was_full = true;
                            break;
                        }
                        Some(p) => {
                            ensure!(in_ring < sq_entries, "real|get_next_sqe_slot|some-while-full", "step {step}: a slot was handed out although all {sq_entries} are in use (setup_io_uring({}))", c.entries);
                            unsafe {
                                core::ptr::write_bytes(p as *mut u8, 0, 64);
                                ((p + 32) as *mut u64).write(0x5EED_0000_0000 + seq);
                            }
                            seq += 1;
                            unflushed += 1;
                        }
                    }
                }
            }
            ROp::Flush => {
                no_panic("IoUring::flush_submission_queue", || ring.flush_submission_queue())?;
                flushed += unflushed;
                unflushed = 0;
            }
            ROp::Enter => {
                // never more than the completion ring can take on top of what is not yet reaped
                let room = if c.overflow { usize::MAX } else { (cq_entries as usize).saturating_sub(posted.len()) };
                let n = (flushed as usize).min(room) as u32;
                if n == 0 {
                    continue;
                }
                let r = match no_panic("io_uring_enter", || io_uring_enter(fd, n, 0, IoUringEnterFlags::empty()))? {
                    Ok(r) => r,
                    // completions are waiting outside a full completion ring: the kernel wants them collected first
                    Err(e) if c.overflow && e.code == Some(rusl::error::Errno::EBUSY) => continue,
                    Err(e) => crate::fail!("real|io_uring_enter|error", "step {step}: io_uring_enter(to_submit {n}) failed: {e}"),
                };
                ensure!(r == n as usize, "real|io_uring_enter|consumed-count", "step {step}: the kernel consumed {r} of the {n} submissions that were filled and flushed (setup_io_uring({}), {sq_entries} slots)", c.entries);
                for i in 0..n as u64 {
                    posted.push_back(0x5EED_0000_0000 + submitted_total + i);
                }
                submitted_total += n as u64;
                flushed -= n;
            }
            ROp::Reap(k) => {
                for _ in 0..k {
                    let mut got = no_panic("IoUring::get_next_cqe", || ring.get_next_cqe().map(|e| (e.0.user_data, e.0.res)))?;
                    if got.is_none() && c.overflow && posted.len() > 0 {
                        // what did not fit the completion ring is moved in by a non-waiting GETEVENTS enter
                        match no_panic("io_uring_enter", || io_uring_enter(fd, 0, 0, IoUringEnterFlags::IORING_ENTER_GETEVENTS))? {
                            Ok(_) => {}
                            Err(e) => crate::fail!("real|io_uring_enter|error", "step {step}: io_uring_enter(0, 0, GETEVENTS) failed: {e}"),
                        }
                        overflow_collected = true;
                        got = no_panic("IoUring::get_next_cqe", || ring.get_next_cqe().map(|e| (e.0.user_data, e.0.res)))?;
                        if got.is_none() {
                            crate::fail!("real|get_next_cqe|none-while-pending|after io_uring_enter(0, 0, GETEVENTS)", "step {step}: {} completions are owed (next user_data {:#x}), the completion ring of {cq_entries} is empty and stays empty after io_uring_enter(fd, 0, 0, GETEVENTS): completions that did not fit the ring are never delivered", posted.len(), posted[0]);
                        }
                    }
                    match (got, posted.front().copied()) {
                        (None, None) => break,
                        (None, Some(ud)) => crate::fail!("real|get_next_cqe|none-while-pending", "step {step}: None although {} completions are pending (next user_data {ud:#x})", posted.len()),
                        (Some((ud, _)), None) => crate::fail!("real|get_next_cqe|some-while-empty", "step {step}: completion with user_data {ud:#x} although nothing is pending"),
                        (Some((ud, res)), Some(want)) => {
                            if ud != want {
                                let kind = if posted.contains(&ud) { "out-of-order" } else if ud >= 0x5EED_0000_0000 && ud < 0x5EED_0000_0000 + submitted_total { "duplicate" } else { "foreign" };
                                crate::fail!(format!("real|completion|{kind}"), "step {step}: completion carries user_data {ud:#x}, the next submission the kernel was given is {want:#x} (setup_io_uring({}), {sq_entries} slots, {submitted_total} submitted so far): a submission was lost, repeated or reordered on its way to the kernel", c.entries);
                            }
                            ensure!(res == 0, "real|completion|nop-result", "step {step}: NOP {ud:#x} completed with {res}");
                            posted.pop_front();
                        }
                    }
                }
            }
        }
    }
    ensure!(posted.is_empty() && flushed == 0, "real|harness|left-over", "harness bug: {} completions / {flushed} submissions left", posted.len());
    no_panic("IoUring::drop", move || drop(ring))?;
    rep.nontrivial_if(submitted_total > u64::from(sq_entries));
    rep.class_if(!c.entries.is_power_of_two(), "entries-not-power-of-two");
    rep.class_if(c.entries.is_power_of_two(), "entries-power-of-two");
    rep.class_if(submitted_total > u64::from(sq_entries), "sq-slots-cycled");
    rep.class_if(submitted_total > 3 * u64::from(sq_entries), "sq-slots-cycled-3x");
    rep.class_if(sq_was_full, "sq-full-none");
    rep.class_if(c.entries == 1, "ring-size-1");
    rep.class_if(overflow_collected, "completions-beyond-the-ring-collected-by-a-GETEVENTS-enter");
    Ok(rep)
}

pub fn real_case() -> impl Strategy<Value = RealCase> {
    let op = prop_oneof![
        5 => (1u8..=9).prop_map(ROp::Fill),
        3 => Just(ROp::Flush),
        3 => Just(ROp::Enter),
        3 => (1u8..=12).prop_map(ROp::Reap),
    ];
    (prop_oneof![4 => 1u32..=9, 2 => 10u32..=40, 1 => Just(64u32), 1 => Just(100u32)], prop::collection::vec(op, 0..120), prop::bool::weighted(0.3)).prop_map(|(entries, ops, overflow)| RealCase { entries, ops, overflow })
}

// "real-sqpoll": rings with a kernel submission thread (SQPOLL, idle time 5 ms). The application never hands
// entries over itself: it flushes, looks once at needs_wakeup() and, if that says so, enters with SQ_WAKEUP -
// the documented protocol. Between rounds it stays quiet for a generated time, so the thread is sometimes awake
// and sometimes asleep. Oracle: every flushed submission (NOPs stamped with a sequence number) is consumed and
// completes exactly once, in order, within a deadline no correct run comes near.
#[derive(Debug, Clone, Serialize, Deserialize)]
pub struct SqpollCase {
    pub entries: u32,
    /// per round: submissions (clamped to the ring), quiet time in ms before the round
    pub rounds: Vec<(u8, u8)>,
}

fn check_real_sqpoll(c: &SqpollCase) -> CaseResult {
    use rusl::io_uring::{io_uring_enter, setup_io_uring};
    use rusl::platform::IoUringEnterFlags;
    use std::time::{Duration, Instant};
    let mut rep = CaseReport::new();
    let mut ring = match crate::runner::catch(|| setup_io_uring(c.entries, IoUringParamFlags::IORING_SETUP_SQPOLL, 0, 5)) {
        Ok(Ok(r)) => r,
        // not permitted here: nothing to judge
        Ok(Err(_)) => return Ok(rep),
        Err((loc, msg)) => crate::fail!(format!("setup_io_uring|panic|{loc}"), "{msg}"),
    };
    let sq_entries = c.entries.next_power_of_two();
    let fd = ring.fd;
    let mut seq = 0u64;
    let mut wakes = 0u32;
    let mut slept_rounds = 0u32;
    for (round, &(k, quiet_ms)) in c.rounds.iter().enumerate() {
        if quiet_ms > 0 {
            std::thread::sleep(Duration::from_millis(u64::from(quiet_ms)));
        }
        let k = u32::from(k).clamp(1, sq_entries);
        let first = seq;
        for _ in 0..k {
            // everything of the earlier rounds has completed, so the kernel has consumed it: a slot must be there
            let slot = no_panic("IoUring::get_next_sqe_slot", || ring.get_next_sqe_slot().map(|p| p as usize))?;
            let Some(p) = slot else {
                crate::fail!("real-sqpoll|get_next_sqe_slot|none-while-free", "round {round}: None although every earlier submission has completed ({} of {sq_entries} slots filled in this round)", seq - first);
            };
            unsafe {
                core::ptr::write_bytes(p as *mut u8, 0, 64);
                ((p + 32) as *mut u64).write(0x5EED_5000_0000 + seq);
            }
            seq += 1;
        }
        no_panic("IoUring::flush_submission_queue", || ring.flush_submission_queue())?;
        // store(tail) ; full barrier ; load(flags) - the barrier is the caller's job
        core::sync::atomic::fence(core::sync::atomic::Ordering::SeqCst);
        let woke = no_panic("IoUring::needs_wakeup", || ring.needs_wakeup())?;
        if woke {
            wakes += 1;
            match no_panic("io_uring_enter", || io_uring_enter(fd, 0, 0, IoUringEnterFlags::IORING_ENTER_SQ_WAKEUP))? {
                Ok(_) => {}
                Err(e) => crate::fail!("real-sqpoll|io_uring_enter|error", "round {round}: io_uring_enter(fd, 0, 0, SQ_WAKEUP) failed: {e}"),
            }
        }
        slept_rounds += u32::from(woke && quiet_ms >= 15);
        // the completions of this round, in order
        let t0 = Instant::now();
        let mut want = first;
        while want < seq {
            match no_panic("IoUring::get_next_cqe", || ring.get_next_cqe().map(|e| (e.0.user_data, e.0.res)))? {
                Some((ud, res)) => {
                    ensure!(ud == 0x5EED_5000_0000 + want && res == 0, "real-sqpoll|completion|wrong", "round {round}: completion (user_data {ud:#x}, res {res}), the next submission the kernel was given is {:#x}: a submission was lost, repeated or reordered on its way to the kernel", 0x5EED_5000_0000 + want);
                    want += 1;
                }
                None => {
                    if t0.elapsed() > Duration::from_secs(6) {
                        crate::fail!(format!("real-sqpoll|never-consumed|{}", if woke { "after the wake-up the protocol asks for" } else { "needs_wakeup() said the thread is awake" }), "round {round} on an SQPOLL ring of {sq_entries} slots (idle 5 ms, {quiet_ms} ms of quiet before the round): {} of {k} submissions flushed 6 s ago have not completed (next {:#x}); needs_wakeup() after the flush was {woke}{}", seq - want, 0x5EED_5000_0000 + want, if woke { ", io_uring_enter(fd, 0, 0, IORING_ENTER_SQ_WAKEUP) returned Ok" } else { "" });
                    }
                    std::thread::sleep(Duration::from_micros(50));
                }
            }
        }
    }
    let extra = no_panic("IoUring::get_next_cqe", || ring.get_next_cqe().map(|e| e.0.user_data))?;
    ensure!(extra.is_none(), "real-sqpoll|completion|extra", "a completion (user_data {:#x}) beyond the {seq} submissions", extra.unwrap_or(0));
    let _ = crate::runner::catch(move || drop(ring));
    rep.nontrivial_if(wakes > 0 && c.rounds.len() >= 2);
    rep.class_if(wakes > 0, "submission-thread-woken-by-the-protocol");
    rep.class_if(slept_rounds > 0, "round-after-15-ms-of-quiet-needed-a-wakeup");
    rep.class_if(wakes < c.rounds.len() as u32, "round-found-the-thread-awake");
    Ok(rep)
}

fn sqpoll_case() -> impl Strategy<Value = SqpollCase> {
    (prop_oneof![3 => 1u32..=8, 1 => Just(16u32), 1 => Just(33u32)], prop::collection::vec((1u8..=16, prop_oneof![3 => Just(0u8), 2 => 1u8..=4, 3 => 15u8..=30]), 1..6)).prop_map(|(entries, rounds)| SqpollCase { entries, rounds })
}

pub fn run(ctx: &Ctx) {
    ctx.run_prop("ring", ctx.cases(6000, 250_000), ring_case(), check_ring);
    if ctx.is_replay() || real_available() {
        ctx.run_prop("real-sqpoll", ctx.cases(60, 1500), sqpoll_case(), check_real_sqpoll);
    }
    // the real kernel, on rings produced by setup_io_uring
    if ctx.is_replay() || real_available() {
        ctx.run_prop("real", ctx.cases(1500, 40_000), real_case(), check_real);
    } else {
        ctx.inconclusive();
        eprintln!("[C17] io_uring_setup is not available here: the real-kernel sub-check was skipped");
    }
}

fn real_available() -> bool {
    matches!(crate::runner::catch(|| rusl::io_uring::setup_io_uring(4, IoUringParamFlags::empty(), 0, 0).is_ok()), Ok(true))
}
