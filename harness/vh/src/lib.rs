//! Shared machinery of the verification harness (runner, journaling, helpers).
pub mod runner;
pub mod util;
