//! Shared machinery of the verification harness (runner, journaling, helpers).
pub mod runner;
pub mod util;

/// Oracles of the properties served by the `vh` binary (also used by the libFuzzer targets).
pub mod c10;
pub mod c11;
pub mod c17;
