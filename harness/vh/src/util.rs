//! Small shared helpers: escaped byte strings as cases, guard-page buffers.
use serde::{Deserialize, Deserializer, Serialize, Serializer};

/// Byte string that serialises as a readable escaped string (`ab/\x00\xff`).
#[derive(Clone, PartialEq, Eq, Hash, PartialOrd, Ord, Default)]
pub struct BStr(pub Vec<u8>);

impl std::fmt::Debug for BStr {
    fn fmt(&self, f: &mut std::fmt::Formatter<'_>) -> std::fmt::Result {
        write!(f, "b\"{}\"", escape(&self.0))
    }
}

pub fn escape(b: &[u8]) -> String {
    let mut s = String::with_capacity(b.len());
    for &c in b {
        if c == b'\\' {
            s.push_str("\\\\");
        } else if (0x20..0x7f).contains(&c) {
            s.push(c as char);
        } else {
            s.push_str(&format!("\\x{c:02x}"));
        }
    }
    s
}

pub fn unescape(s: &str) -> Vec<u8> {
    let b = s.as_bytes();
    let mut out = Vec::with_capacity(b.len());
    let mut i = 0;
    while i < b.len() {
        if b[i] == b'\\' && i + 1 < b.len() {
            if b[i + 1] == b'\\' {
                out.push(b'\\');
                i += 2;
                continue;
            }
            if b[i + 1] == b'x' && i + 3 < b.len() {
                if let Ok(v) = u8::from_str_radix(&s[i + 2..i + 4], 16) {
                    out.push(v);
                    i += 4;
                    continue;
                }
            }
        }
        out.push(b[i]);
        i += 1;
    }
    out
}

impl Serialize for BStr {
    fn serialize<S: Serializer>(&self, s: S) -> Result<S::Ok, S::Error> {
        s.serialize_str(&escape(&self.0))
    }
}

impl<'de> Deserialize<'de> for BStr {
    fn deserialize<D: Deserializer<'de>>(d: D) -> Result<Self, D::Error> {
        let s = String::deserialize(d)?;
        Ok(BStr(unescape(&s)))
    }
}

/// A buffer of exactly `len` bytes whose end (and optionally start) abuts a PROT_NONE page:
/// any read or write outside `[ptr, ptr+len)` on the guarded side faults.
pub struct Guarded {
    base: *mut u8,
    total: usize,
    ptr: *mut u8,
    len: usize,
}

pub const PAGE: usize = 4096;

impl Guarded {
    /// Buffer ending exactly at a guard page.
    pub fn at_end(len: usize) -> Guarded {
        let data_pages = len.div_ceil(PAGE).max(1);
        let total = (data_pages + 2) * PAGE;
        unsafe {
            let base = libc::mmap(core::ptr::null_mut(), total, libc::PROT_NONE, libc::MAP_PRIVATE | libc::MAP_ANONYMOUS, -1, 0) as *mut u8;
            assert!(base as isize != -1, "mmap failed");
            let data = base.add(PAGE);
            libc::mprotect(data as *mut libc::c_void, data_pages * PAGE, libc::PROT_READ | libc::PROT_WRITE);
            let ptr = data.add(data_pages * PAGE - len);
            Guarded { base, total, ptr, len }
        }
    }

    /// Buffer starting exactly after a guard page.
    pub fn at_start(len: usize) -> Guarded {
        let data_pages = len.div_ceil(PAGE).max(1);
        let total = (data_pages + 2) * PAGE;
        unsafe {
            let base = libc::mmap(core::ptr::null_mut(), total, libc::PROT_NONE, libc::MAP_PRIVATE | libc::MAP_ANONYMOUS, -1, 0) as *mut u8;
            assert!(base as isize != -1, "mmap failed");
            let data = base.add(PAGE);
            libc::mprotect(data as *mut libc::c_void, data_pages * PAGE, libc::PROT_READ | libc::PROT_WRITE);
            Guarded { base, total, ptr: data, len }
        }
    }

    pub fn from_bytes_at_end(b: &[u8]) -> Guarded {
        let mut g = Guarded::at_end(b.len());
        g.as_mut().copy_from_slice(b);
        g
    }

    /// Re-position for a new length without remapping, when it fits in the data pages.
    pub fn reset_at_end(&mut self, b: &[u8]) {
        let data_bytes = self.total - 2 * PAGE;
        assert!(b.len() <= data_bytes);
        unsafe {
            self.ptr = self.base.add(PAGE + data_bytes - b.len());
            self.len = b.len();
            core::ptr::copy_nonoverlapping(b.as_ptr(), self.ptr, b.len());
        }
    }

    pub fn as_ptr(&self) -> *mut u8 {
        self.ptr
    }
    pub fn len(&self) -> usize {
        self.len
    }
    pub fn is_empty(&self) -> bool {
        self.len == 0
    }
    #[allow(clippy::should_implement_trait)]
    pub fn as_ref(&self) -> &[u8] {
        unsafe { core::slice::from_raw_parts(self.ptr, self.len) }
    }
    #[allow(clippy::should_implement_trait)]
    pub fn as_mut(&mut self) -> &mut [u8] {
        unsafe { core::slice::from_raw_parts_mut(self.ptr, self.len) }
    }
}

impl Drop for Guarded {
    fn drop(&mut self) {
        unsafe {
            libc::munmap(self.base as *mut libc::c_void, self.total);
        }
    }
}

/// All strings over `alphabet` of length 0..=max_len, shortest first.
pub fn all_strings(alphabet: &[u8], max_len: usize) -> Vec<Vec<u8>> {
    let mut out: Vec<Vec<u8>> = vec![vec![]];
    let mut start = 0;
    for _ in 0..max_len {
        let end = out.len();
        for i in start..end {
            for &c in alphabet {
                let mut s = out[i].clone();
                s.push(c);
                out.push(s);
            }
        }
        start = end;
    }
    out
}

pub fn with_nul(b: &[u8]) -> Vec<u8> {
    let mut v = b.to_vec();
    v.push(0);
    v
}
