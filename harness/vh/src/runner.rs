//! Common machinery: seeded proptest runner, journaling, crash handler, statistics, replay.
//!
//! A *case* is a serialisable value. `run_prop` drives a proptest strategy with a fixed seed,
//! journals every case before executing it (so a crash of the process still leaves the input),
//! catches panics of the code under test, classifies cases, matches failures against the
//! known-findings list and shrinks unknown failures to a minimal replay file.
use std::cell::{Cell, RefCell};
use std::collections::{BTreeMap, BTreeSet};
use std::fmt::Debug;
use std::hash::{Hash, Hasher};
use std::io::Write;
use std::panic::{catch_unwind, AssertUnwindSafe};
use std::path::PathBuf;

use proptest::strategy::Strategy;
use proptest::test_runner::{Config, RngAlgorithm, TestCaseError, TestError, TestRng, TestRunner};
use serde::de::DeserializeOwned;
use serde::Serialize;
use serde_json::{json, Value};

/// What a single executed case reports back.
#[derive(Default, Debug, Clone)]
pub struct CaseReport {
    pub nontrivial: bool,
    pub classes: Vec<&'static str>,
    /// when set, distinctness of non-trivial cases is judged by this key (e.g. hash of the
    /// executed trace) instead of the hash of the serialised case
    pub distinct_key: Option<u64>,
}

impl CaseReport {
    pub fn new() -> Self {
        Self::default()
    }
    pub fn class(&mut self, c: &'static str) {
        if !self.classes.contains(&c) {
            self.classes.push(c);
        }
    }
    pub fn class_if(&mut self, cond: bool, c: &'static str) {
        if cond {
            self.class(c);
        }
    }
    pub fn nontrivial_if(&mut self, cond: bool) {
        if cond {
            self.nontrivial = true;
        }
    }
}

#[derive(Debug, Clone)]
pub struct Failure {
    /// stable signature: "<operation>|<failure class>|<discriminating shape>"
    pub sig: String,
    pub what: String,
}

impl Failure {
    pub fn new(sig: impl Into<String>, what: impl Into<String>) -> Self {
        Failure { sig: sig.into(), what: what.into() }
    }
}

pub type CaseResult = Result<CaseReport, Failure>;

#[macro_export]
macro_rules! fail {
    ($sig:expr, $($arg:tt)*) => {
        return Err($crate::runner::Failure::new($sig, format!($($arg)*)))
    };
}

#[macro_export]
macro_rules! ensure {
    ($cond:expr, $sig:expr, $($arg:tt)*) => {
        if !($cond) {
            return Err($crate::runner::Failure::new($sig, format!($($arg)*)));
        }
    };
}

#[derive(Debug, Clone)]
pub struct Known {
    pub signature: String,
    pub what: String,
}

pub struct Ctx {
    pub prop: String,
    pub seed: u64,
    pub worker: u32,
    pub nworkers: u32,
    pub tier: String,
    pub profile: &'static str,
    pub scale: f64,
    pub out: Option<PathBuf>,
    pub replay_dir: PathBuf,
    pub replay: Option<PathBuf>,
    pub known: Vec<Known>,
    pub strict: bool,
    pub stats: RefCell<Stats>,
}

#[derive(Default)]
pub struct Stats {
    pub evaluations: u64,
    pub nontrivial: BTreeSet<u64>,
    pub nontrivial_overflow: u64,
    pub classes: BTreeMap<String, u64>,
    pub samples: Vec<Value>,
    pub class_samples: BTreeMap<String, Value>,
    pub known_hits: BTreeMap<String, u64>,
    pub failures: Vec<Value>,
    pub inconclusive: u64,
    pub extra: BTreeMap<String, Value>,
    pub exhaustive: Vec<String>,
    pub last_sample: Option<Value>,
}

/// Root of the verification tree (`/verif`, or a scratch copy when VERIF_ROOT is set by ./check).
pub fn verif_root() -> String {
    std::env::var("VERIF_ROOT").unwrap_or_else(|_| "/verif".to_string())
}

pub const MAX_HASHES_PER_WORKER: usize = 400_000;

pub fn splitmix(mut x: u64) -> u64 {
    x = x.wrapping_add(0x9E37_79B9_7F4A_7C15);
    let mut z = x;
    z = (z ^ (z >> 30)).wrapping_mul(0xBF58_476D_1CE4_E5B9);
    z = (z ^ (z >> 27)).wrapping_mul(0x94D0_49BB_1331_11EB);
    z ^ (z >> 31)
}

pub fn hash_str(s: &str) -> u64 {
    let mut h = std::collections::hash_map::DefaultHasher::new();
    s.hash(&mut h);
    h.finish()
}

pub fn hash_of<T: Hash>(t: &T) -> u64 {
    let mut h = std::collections::hash_map::DefaultHasher::new();
    t.hash(&mut h);
    h.finish()
}

// ------------------------------------------------------------------------------------------
// journal + crash handler
// ------------------------------------------------------------------------------------------

const JBUF: usize = 1 << 20;
static mut JOURNAL_BUF: [u8; JBUF] = [0; JBUF];
static mut JOURNAL_LEN: usize = 0;
static mut JOURNAL_FD: i32 = -1;

/// Remember the current case (cheap: a memcpy); it is written to the journal file by the
/// fatal-signal handler, so a SIGSEGV inside the code under test still leaves its input.
pub fn journal_set(bytes: &[u8]) {
    unsafe {
        let n = bytes.len().min(JBUF);
        let dst = core::ptr::addr_of_mut!(JOURNAL_BUF) as *mut u8;
        core::ptr::copy_nonoverlapping(bytes.as_ptr(), dst, n);
        core::ptr::write_volatile(core::ptr::addr_of_mut!(JOURNAL_LEN), n);
    }
}

/// Write the journal now (used before cases that may kill the process without a signal we
/// can catch, e.g. SIGKILL by the watchdog or a hang).
pub fn journal_flush() {
    unsafe {
        let fd = JOURNAL_FD;
        if fd >= 0 {
            libc::ftruncate(fd, 0);
            let src = core::ptr::addr_of!(JOURNAL_BUF) as *const u8;
            libc::pwrite(fd, src as *const libc::c_void, JOURNAL_LEN, 0);
        }
    }
}

extern "C" fn fatal_handler(sig: i32) {
    unsafe {
        let fd = JOURNAL_FD;
        if fd >= 0 {
            libc::ftruncate(fd, 0);
            let src = core::ptr::addr_of!(JOURNAL_BUF) as *const u8;
            libc::pwrite(fd, src as *const libc::c_void, JOURNAL_LEN, 0);
        }
        libc::signal(sig, libc::SIG_DFL);
        libc::raise(sig);
    }
}

pub fn install_crash_handler(journal_path: &std::path::Path) {
    unsafe {
        let c = std::ffi::CString::new(journal_path.as_os_str().as_encoded_bytes()).unwrap();
        let fd = libc::open(c.as_ptr(), libc::O_CREAT | libc::O_WRONLY | libc::O_TRUNC | libc::O_CLOEXEC, 0o644);
        // move it out of the low descriptor range so fd-table oracles are not disturbed
        let hi = libc::fcntl(fd, libc::F_DUPFD_CLOEXEC, 900);
        if hi >= 0 {
            libc::close(fd);
            JOURNAL_FD = hi;
        } else {
            JOURNAL_FD = fd;
        }
        // alternate stack so stack overflows are caught as well
        let sz = 1 << 16;
        let stack = libc::mmap(core::ptr::null_mut(), sz, libc::PROT_READ | libc::PROT_WRITE, libc::MAP_PRIVATE | libc::MAP_ANONYMOUS, -1, 0);
        let ss = libc::stack_t { ss_sp: stack, ss_flags: 0, ss_size: sz };
        libc::sigaltstack(&ss, core::ptr::null_mut());
        for sig in [libc::SIGSEGV, libc::SIGBUS, libc::SIGILL, libc::SIGABRT, libc::SIGFPE] {
            let mut sa: libc::sigaction = core::mem::zeroed();
            sa.sa_sigaction = fatal_handler as *const () as usize;
            sa.sa_flags = libc::SA_ONSTACK | libc::SA_NODEFER;
            libc::sigaction(sig, &sa, core::ptr::null_mut());
        }
    }
}

// ------------------------------------------------------------------------------------------
// panic capture
// ------------------------------------------------------------------------------------------

thread_local! {
    static LAST_PANIC: RefCell<Option<(String, String)>> = const { RefCell::new(None) };
    static QUIET: Cell<bool> = const { Cell::new(false) };
}

pub fn install_panic_hook() {
    let default = std::panic::take_hook();
    std::panic::set_hook(Box::new(move |info| {
        let msg = if let Some(s) = info.payload().downcast_ref::<&str>() {
            (*s).to_string()
        } else if let Some(s) = info.payload().downcast_ref::<String>() {
            s.clone()
        } else if let Some(r) = info.payload().downcast_ref::<sc::verif::ReissuePanic>() {
            format!("syscall {} re-issued {} times (forced return value served again and again, or the call budget of the case exceeded): the code under test loops", r.nr, r.served)
        } else {
            "<non-string panic payload>".to_string()
        };
        let loc = info
            .location()
            .map(|l| {
                let f = l.file();
                let f = f.strip_prefix("/repo/").unwrap_or(f);
                format!("{}:{}", f, l.line())
            })
            .unwrap_or_else(|| "?".into());
        let quiet = QUIET.with(|q| q.get());
        LAST_PANIC.with(|p| *p.borrow_mut() = Some((loc, msg)));
        if !quiet {
            default(info);
        }
    }));
}

/// Location of the most recent panic caught on this thread (for harnesses with their own
/// `catch_unwind`), consumed on read.
pub fn take_last_panic_location() -> Option<String> {
    LAST_PANIC.with(|p| p.borrow_mut().take()).map(|(loc, _)| loc)
}

/// Run `f`, converting a panic into `Err((location, message))`.
pub fn catch<R>(f: impl FnOnce() -> R) -> Result<R, (String, String)> {
    let was = QUIET.with(|q| q.replace(true));
    LAST_PANIC.with(|p| *p.borrow_mut() = None);
    let r = catch_unwind(AssertUnwindSafe(f));
    QUIET.with(|q| q.set(was));
    match r {
        Ok(v) => Ok(v),
        Err(_) => {
            // make sure the interposer is not left in "busy" or planned state
            let lp = LAST_PANIC.with(|p| p.borrow_mut().take());
            Err(lp.unwrap_or_else(|| ("?".into(), "panic".into())))
        }
    }
}

/// Like `catch`, mapping a panic to a `Failure` with signature `<op>|panic|<location>`.
pub fn no_panic<R>(op: &str, f: impl FnOnce() -> R) -> Result<R, Failure> {
    catch(f).map_err(|(loc, msg)| Failure::new(format!("{op}|panic|{loc}"), format!("{op} panicked at {loc}: {msg}")))
}

// ------------------------------------------------------------------------------------------
// Ctx
// ------------------------------------------------------------------------------------------

impl Ctx {
    pub fn from_args(args: &[String]) -> Ctx {
        let mut prop = String::new();
        let mut seed = 1u64;
        let mut worker = 0u32;
        let mut nworkers = 1u32;
        let mut tier = "quick".to_string();
        let mut scale = 1.0f64;
        let mut out = None;
        let mut replay = None;
        let mut replay_dir = None;
        let mut known_file = None;
        let mut strict = false;
        let mut i = 0;
        while i < args.len() {
            let a = &args[i];
            let mut val = || {
                i += 1;
                args.get(i).cloned().unwrap_or_else(|| panic!("missing value for {a}"))
            };
            match a.as_str() {
                "--seed" => seed = val().parse().unwrap(),
                "--worker" => worker = val().parse().unwrap(),
                "--nworkers" => nworkers = val().parse().unwrap(),
                "--tier" => tier = val(),
                "--scale" => scale = val().parse().unwrap(),
                "--out" => out = Some(PathBuf::from(val())),
                "--replay" => replay = Some(PathBuf::from(val())),
                "--replay-dir" => replay_dir = Some(PathBuf::from(val())),
                "--known" => known_file = Some(PathBuf::from(val())),
                "--strict" => strict = true,
                s if prop.is_empty() && !s.starts_with('-') => prop = s.to_string(),
                s => panic!("unknown argument {s}"),
            }
            i += 1;
        }
        let replay_dir = replay_dir.unwrap_or_else(|| PathBuf::from(format!("{}/replays/{prop}", verif_root())));
        let _ = std::fs::create_dir_all(&replay_dir);
        let mut known = Vec::new();
        let kf = known_file.unwrap_or_else(|| PathBuf::from(format!("{}/known_findings.txt", verif_root())));
        if !strict {
            if let Ok(txt) = std::fs::read_to_string(&kf) {
                for line in txt.lines() {
                    let Some(rest) = line.strip_prefix("known: property=") else { continue };
                    let Some((pid, rest)) = rest.split_once(' ') else { continue };
                    if pid != prop {
                        continue;
                    }
                    let Some(rest) = rest.strip_prefix("sig=") else { continue };
                    let (sig, what) = rest.split_once(" what=").unwrap_or((rest, ""));
                    known.push(Known { signature: sig.trim().to_string(), what: what.trim().to_string() });
                }
            }
        }
        let profile = if cfg!(debug_assertions) { "dev" } else { "release" };
        Ctx {
            prop,
            seed,
            worker,
            nworkers,
            tier,
            profile,
            scale,
            out,
            replay_dir,
            replay,
            known,
            strict,
            stats: RefCell::new(Stats::default()),
        }
    }

    pub fn thorough(&self) -> bool {
        self.tier == "thorough"
    }

    /// Number of cases for a sub-check: `quick` or `thorough` base count scaled by --scale.
    pub fn cases(&self, quick: u64, thorough: u64) -> u32 {
        let base = if self.thorough() { thorough } else { quick };
        ((base as f64 * self.scale).ceil() as u64).max(1) as u32
    }

    pub fn sub_seed(&self, name: &str) -> u64 {
        splitmix(self.seed ^ splitmix(hash_str(&self.prop) ^ splitmix(hash_str(name) ^ (self.worker as u64) << 32)))
    }

    fn known_match(&self, sig: &str) -> Option<&Known> {
        self.known.iter().find(|k| sig == k.signature || (k.signature.ends_with('*') && sig.starts_with(&k.signature[..k.signature.len() - 1])))
    }

    /// Record the outcome of one executed case. Returns Ok(()) if it passed or hit a known
    /// finding, Err(failure) if it is an unknown failure.
    pub fn record<C: Serialize>(&self, name: &str, case: &C, hash: u64, res: CaseResult) -> Result<(), Failure> {
        let mut st = self.stats.borrow_mut();
        st.evaluations += 1;
        match res {
            Ok(rep) => {
                if rep.nontrivial {
                    let hash = rep.distinct_key.unwrap_or(hash);
                    if st.nontrivial.len() < MAX_HASHES_PER_WORKER {
                        st.nontrivial.insert(hash);
                    } else {
                        st.nontrivial_overflow += 1;
                    }
                }
                for c in &rep.classes {
                    let key = format!("{name}:{c}");
                    let n = st.classes.entry(key.clone()).or_insert(0);
                    *n += 1;
                    if *n == 1 && st.class_samples.len() < 64 {
                        st.class_samples.insert(key, json!({"check": name, "case": case}));
                    }
                }
                if st.samples.len() < 3 {
                    st.samples.push(json!({"check": name, "case": case}));
                } else if st.evaluations % 64 == 0 {
                    st.last_sample = Some(json!({"check": name, "case": case}));
                }
                Ok(())
            }
            Err(f) => {
                if let Some(k) = self.known_match(&f.sig) {
                    *st.known_hits.entry(k.signature.clone()).or_insert(0) += 1;
                    let key = format!("{name}:known-finding");
                    *st.classes.entry(key).or_insert(0) += 1;
                    Ok(())
                } else {
                    Err(f)
                }
            }
        }
    }

    pub fn note_exhaustive(&self, what: impl Into<String>) {
        self.stats.borrow_mut().exhaustive.push(what.into());
    }

    pub fn extra(&self, key: &str, v: Value) {
        self.stats.borrow_mut().extra.insert(key.to_string(), v);
    }

    pub fn inconclusive(&self) {
        self.stats.borrow_mut().inconclusive += 1;
    }

    /// Write a failing case as replay file and remember the failure.
    pub fn report_failure<C: Serialize>(&self, name: &str, case: &C, f: &Failure) {
        let body = json!({"property": self.prop, "check": name, "case": case, "signature": f.sig, "what": f.what, "profile": self.profile, "seed": self.seed});
        let txt = serde_json::to_string_pretty(&body).unwrap();
        let path = self.replay_dir.join(format!("{:016x}.json", hash_str(&format!("{}|{}", name, f.sig))));
        let _ = std::fs::write(&path, &txt);
        let mut st = self.stats.borrow_mut();
        if !st.failures.iter().any(|x| x["signature"] == f.sig) {
            st.failures.push(json!({"signature": f.sig, "what": f.what, "check": name, "replay": path, "case": case, "profile": self.profile}));
        }
    }

    pub fn has_failure(&self) -> bool {
        !self.stats.borrow().failures.is_empty()
    }

    /// Drive `strategy` for `cases` cases through `f` with shrinking.
    pub fn run_prop<S, F>(&self, name: &str, cases: u32, strategy: S, f: F)
    where
        S: Strategy,
        S::Value: Serialize + DeserializeOwned + Debug + Clone,
        F: Fn(&S::Value) -> CaseResult,
    {
        self.run_prop_opts(name, cases, 4000, strategy, f);
    }

    /// As `run_prop` with an explicit bound on shrink iterations (use a small bound where a
    /// failing execution is expensive or not reproducible, e.g. real-thread deadlocks).
    pub fn run_prop_opts<S, F>(&self, name: &str, cases: u32, max_shrink_iters: u32, strategy: S, f: F)
    where
        S: Strategy,
        S::Value: Serialize + DeserializeOwned + Debug + Clone,
        F: Fn(&S::Value) -> CaseResult,
    {
        if let Some(rp) = &self.replay {
            // replay mode: only run if the file is for this sub-check
            let txt = std::fs::read_to_string(rp).expect("replay file");
            let v: Value = serde_json::from_str(&txt).expect("replay json");
            if v["check"].as_str() != Some(name) {
                return;
            }
            let case: S::Value = serde_json::from_value(v["case"].clone()).expect("replay case does not deserialise");
            journal_set(txt.as_bytes());
            let res = match catch(|| f(&case)) {
                Ok(r) => r,
                Err((loc, msg)) => Err(Failure::new(format!("{name}|panic|{loc}"), format!("panicked at {loc}: {msg}"))),
            };
            let h = hash_str(&serde_json::to_string(&case).unwrap());
            if let Err(fl) = self.record(name, &case, h, res) {
                self.report_failure(name, &case, &fl);
            }
            return;
        }
        // corpus replays first
        self.run_corpus(name, &f);

        let seed = self.sub_seed(name);
        let mut seed_bytes = [0u8; 32];
        for (i, chunk) in seed_bytes.chunks_mut(8).enumerate() {
            chunk.copy_from_slice(&splitmix(seed.wrapping_add(i as u64)).to_le_bytes());
        }
        let config = Config {
            cases,
            failure_persistence: None,
            max_shrink_iters,
            max_global_rejects: 1_000_000,
            ..Config::default()
        };
        let mut runner = TestRunner::new_with_rng(config, TestRng::from_seed(RngAlgorithm::ChaCha, &seed_bytes));
        let failed = Cell::new(false);
        // the most recent failing evaluation (case, failure): reported when the shrunk case does
        // not fail again on its own re-run (timing-dependent failures)
        let last_fail: std::cell::RefCell<Option<(S::Value, Failure)>> = std::cell::RefCell::new(None);
        let header = format!("{{\"property\":{:?},\"check\":{:?},\"case\":", self.prop, name);
        let result = runner.run(&strategy, |case| {
            let js = serde_json::to_string(&case).unwrap();
            let mut j = String::with_capacity(header.len() + js.len() + 2);
            j.push_str(&header);
            j.push_str(&js);
            j.push('}');
            journal_set(j.as_bytes());
            let res = match catch(|| f(&case)) {
                Ok(r) => r,
                Err((loc, msg)) => Err(Failure::new(format!("{name}|panic|{loc}"), format!("panicked at {loc}: {msg}"))),
            };
            if failed.get() {
                // shrinking: do not count, only decide pass/fail (same known-filter)
                return match res {
                    Ok(_) => Ok(()),
                    Err(fl) => {
                        if self.known_match(&fl.sig).is_some() {
                            Ok(())
                        } else {
                            *last_fail.borrow_mut() = Some((case.clone(), fl.clone()));
                            Err(TestCaseError::fail(fl.sig))
                        }
                    }
                };
            }
            let h = hash_str(&js);
            match self.record(name, &case, h, res) {
                Ok(()) => Ok(()),
                Err(fl) => {
                    failed.set(true);
                    *last_fail.borrow_mut() = Some((case.clone(), fl.clone()));
                    Err(TestCaseError::fail(fl.sig))
                }
            }
        });
        match result {
            Ok(()) => {}
            Err(TestError::Fail(_reason, minimal)) => {
                // re-run on the minimal case to obtain its own signature/message
                let res = match catch(|| f(&minimal)) {
                    Ok(r) => r,
                    Err((loc, msg)) => Err(Failure::new(format!("{name}|panic|{loc}"), format!("panicked at {loc}: {msg}"))),
                };
                match (res, last_fail.borrow_mut().take()) {
                    (Err(fl), _) => self.report_failure(name, &minimal, &fl),
                    (Ok(_), Some((case, fl))) => {
                        // keep the real signature and the case that was last seen failing
                        let fl = Failure::new(fl.sig, format!("{} [non-deterministic: the shrunk case passed when re-run on its own; this is the last evaluation that failed]", fl.what));
                        self.report_failure(name, &case, &fl);
                    }
                    (Ok(_), None) => self.report_failure(name, &minimal, &Failure::new(format!("{name}|flaky"), "minimal case passed on re-run (non-deterministic failure)".to_string())),
                }
            }
            Err(TestError::Abort(reason)) => {
                eprintln!("[{}:{}] proptest aborted: {}", self.prop, name, reason);
                self.inconclusive();
            }
        }
    }

    /// Replay committed regression cases for this sub-check (seconds).
    fn run_corpus<V, F>(&self, name: &str, f: &F)
    where
        V: Serialize + DeserializeOwned + Debug + Clone,
        F: Fn(&V) -> CaseResult,
    {
        if self.worker != 0 {
            return;
        }
        let dir = PathBuf::from(format!("{}/corpus/{}", verif_root(), self.prop));
        let Ok(rd) = std::fs::read_dir(&dir) else { return };
        let mut files: Vec<_> = rd.filter_map(|e| e.ok()).map(|e| e.path()).filter(|p| p.extension().map(|e| e == "json").unwrap_or(false)).collect();
        files.sort();
        for p in files {
            let Ok(txt) = std::fs::read_to_string(&p) else { continue };
            let Ok(v) = serde_json::from_str::<Value>(&txt) else { continue };
            if v["check"].as_str() != Some(name) {
                continue;
            }
            let Ok(case) = serde_json::from_value::<V>(v["case"].clone()) else {
                eprintln!("corpus file {} does not deserialise for {}", p.display(), name);
                continue;
            };
            journal_set(txt.as_bytes());
            let res = match catch(|| f(&case)) {
                Ok(r) => r,
                Err((loc, msg)) => Err(Failure::new(format!("{name}|panic|{loc}"), format!("panicked at {loc}: {msg}"))),
            };
            let h = hash_str(&serde_json::to_string(&case).unwrap());
            {
                let mut st = self.stats.borrow_mut();
                *st.classes.entry(format!("{name}:corpus-replay")).or_insert(0) += 1;
            }
            if let Err(fl) = self.record(name, &case, h, res) {
                self.report_failure(name, &case, &fl);
            }
        }
    }

    /// Run one explicitly constructed case (exhaustive enumerations). Returns false once an
    /// unknown failure was recorded so the enumeration can stop early.
    pub fn run_one<C: Serialize>(&self, name: &str, case: &C, f: impl FnOnce() -> CaseResult) -> bool {
        let js = serde_json::to_string(case).unwrap();
        let mut j = String::with_capacity(js.len() + 64);
        j.push_str("{\"property\":\"");
        j.push_str(&self.prop);
        j.push_str("\",\"check\":\"");
        j.push_str(name);
        j.push_str("\",\"case\":");
        j.push_str(&js);
        j.push('}');
        journal_set(j.as_bytes());
        let res = match catch(f) {
            Ok(r) => r,
            Err((loc, msg)) => Err(Failure::new(format!("{name}|panic|{loc}"), format!("panicked at {loc}: {msg}"))),
        };
        match self.record(name, case, hash_str(&js), res) {
            Ok(()) => true,
            Err(fl) => {
                self.report_failure(name, case, &fl);
                false
            }
        }
    }

    /// Replay-mode helper for sub-checks that do not go through `run_prop`: returns the case
    /// from the replay file if it belongs to sub-check `name`.
    pub fn replay_case<V: DeserializeOwned>(&self, name: &str) -> Option<V> {
        let rp = self.replay.as_ref()?;
        let txt = std::fs::read_to_string(rp).ok()?;
        let v: Value = serde_json::from_str(&txt).ok()?;
        if v["check"].as_str() != Some(name) {
            return None;
        }
        serde_json::from_value(v["case"].clone()).ok()
    }

    pub fn is_replay(&self) -> bool {
        self.replay.is_some()
    }

    pub fn finish(&self) -> i32 {
        let st = self.stats.borrow();
        let mut samples = st.samples.clone();
        if let Some(l) = &st.last_sample {
            samples.push(l.clone());
        }
        let out = json!({
            "property": self.prop,
            "worker": self.worker,
            "profile": self.profile,
            "seed": self.seed,
            "evaluations": st.evaluations,
            "nontrivial_hashes": st.nontrivial.iter().collect::<Vec<_>>(),
            "nontrivial_overflow": st.nontrivial_overflow,
            "classes": st.classes,
            "samples": samples,
            "class_samples": st.class_samples,
            "known_hits": st.known_hits,
            "failures": st.failures,
            "inconclusive": st.inconclusive,
            "extra": st.extra,
            "exhaustive": st.exhaustive,
        });
        if let Some(p) = &self.out {
            let mut f = std::fs::File::create(p).expect("create out");
            f.write_all(serde_json::to_string(&out).unwrap().as_bytes()).unwrap();
        } else {
            let mut o = out.clone();
            o["nontrivial_hashes"] = json!(st.nontrivial.len());
            o["class_samples"] = json!(st.class_samples.len());
            println!("{}", serde_json::to_string_pretty(&o).unwrap());
        }
        for f in &st.failures {
            println!("FAILURE signature={} replay={} what={}", f["signature"].as_str().unwrap_or(""), f["replay"].as_str().unwrap_or(""), f["what"].as_str().unwrap_or(""));
        }
        if st.failures.is_empty() {
            0
        } else {
            1
        }
    }
}

/// Monotone index mapping (keeps shrinking effective): maps a u16 draw to 0..len.
pub fn pick_idx(draw: u16, len: usize) -> usize {
    if len == 0 {
        0
    } else {
        ((draw as usize) * len) >> 16
    }
}

/// Standard `main` of a harness binary: parse arguments, install hooks, run, write output.
pub fn main_for(run: impl FnOnce(&Ctx)) -> ! {
    let args: Vec<String> = std::env::args().skip(1).collect();
    let ctx = Ctx::from_args(&args);
    install_panic_hook();
    let journal = ctx.replay_dir.join(format!("current-{}-{}.json", ctx.profile, ctx.worker));
    if !ctx.is_replay() {
        install_crash_handler(&journal);
    }
    run(&ctx);
    let code = ctx.finish();
    std::process::exit(code);
}
