//! Declared grammar of a derived parser as data (`Spec`), the value model both sides are
//! compared in (`Model`), the renderer (value -> argument list) and the reference recogniser.
//!
//! The recogniser is written from the *declaration* of a shape (its options with their aliases,
//! kinds and types, its positionals, its subcommands), not from the generated code. It reads an
//! argument list left to right under the most liberal reading of the declaration and, while doing
//! so, records whether the line left the part of the grammar every reading agrees on
//! (`ambiguous`); only unambiguous lines take part in the accept/reject comparison.
use std::str::FromStr;

use serde::{Deserialize, Serialize};
use vh::util::BStr;

use super::shapes::Mode;

#[derive(Clone, Copy, Debug, PartialEq, Eq)]
pub enum Ty {
    Str,    // &'static str
    UStr,   // &'static UnixStr
    String, // String
    I32,
    I64,
    U8,
    U16,
    U32,
    Mode, // harness enum with its own FromStr
}

#[derive(Clone, Copy, Debug, PartialEq, Eq)]
pub enum Kind {
    Req,
    Opt,
    Many,
    Flag,
}

#[derive(Debug)]
pub struct OptSpec {
    pub short: Option<&'static str>,
    pub long: Option<&'static str>,
    pub kind: Kind,
    pub ty: Ty,
}

#[derive(Debug)]
pub struct PosSpec {
    pub name: &'static str,
    pub ty: Ty,
    pub optional: bool,
}

#[derive(Debug)]
pub struct CmdSpec {
    pub name: &'static str,
    pub inner: Option<&'static Spec>,
}

#[derive(Debug)]
pub struct SubSpec {
    pub optional: bool,
    pub cmds: &'static [CmdSpec],
}

pub struct Spec {
    pub name: &'static str,
    pub opts: &'static [OptSpec],
    pub pos: &'static [PosSpec],
    pub sub: Option<SubSpec>,
    /// renders the help printer of the struct (Err(()) when the Display impl reports an error)
    pub help: fn() -> Result<String, ()>,
}

impl std::fmt::Debug for Spec {
    fn fmt(&self, f: &mut std::fmt::Formatter<'_>) -> std::fmt::Result {
        write!(f, "Spec({})", self.name)
    }
}

impl OptSpec {
    pub fn short_tok(&self) -> Option<Vec<u8>> {
        self.short.map(|s| format!("-{s}").into_bytes())
    }
    pub fn long_tok(&self) -> Option<Vec<u8>> {
        self.long.map(|s| format!("--{s}").into_bytes())
    }
    pub fn tokens(&self) -> Vec<Vec<u8>> {
        self.short_tok().into_iter().chain(self.long_tok()).collect()
    }
}

impl Spec {
    pub fn opt_by_token(&self, a: &[u8]) -> Option<usize> {
        self.opts.iter().position(|o| o.tokens().iter().any(|t| t == a))
    }
    pub fn option_tokens(&self) -> Vec<Vec<u8>> {
        self.opts.iter().flat_map(|o| o.tokens()).collect()
    }
    /// Words that have a meaning of their own at this level: a value equal to one of them has no
    /// unambiguous rendering.
    pub fn is_reserved(&self, a: &[u8]) -> bool {
        is_help(a) || self.opt_by_token(a).is_some()
    }
    /// Every struct level reachable from this one (itself first).
    pub fn tree(&'static self) -> Vec<&'static Spec> {
        let mut out = vec![self];
        if let Some(s) = &self.sub {
            for c in s.cmds {
                if let Some(i) = c.inner {
                    out.extend(i.tree());
                }
            }
        }
        out
    }
    /// All words of the grammar in the tree: option tokens and subcommand names.
    pub fn vocabulary(&'static self) -> Vec<Vec<u8>> {
        let mut v = Vec::new();
        for s in self.tree() {
            v.extend(s.option_tokens());
            if let Some(sub) = &s.sub {
                v.extend(sub.cmds.iter().map(|c| c.name.as_bytes().to_vec()));
            }
        }
        v.sort();
        v.dedup();
        v
    }
}

pub fn is_help(a: &[u8]) -> bool {
    a == b"-h" || a == b"--help"
}

// ------------------------------------------------------------------------------------ values

/// Value of one struct level. Every field value is kept as its canonical argument bytes
/// (integers in `to_string` form, `Mode` by its name, strings as they are).
#[derive(Clone, Debug, PartialEq, Eq, Serialize, Deserialize)]
pub struct Model {
    /// per declared option, in declaration order: Flag -> [] / [""], Req/Opt -> 0..1 value, Many -> n
    pub opts: Vec<Vec<BStr>>,
    pub pos: Vec<Option<BStr>>,
    pub sub: Option<SubModel>,
}

#[derive(Clone, Debug, PartialEq, Eq, Serialize, Deserialize)]
pub struct SubModel {
    pub cmd: usize,
    pub inner: Option<Box<Model>>,
}

/// Conversion of one argument to a field of type `ty` as the declaration promises it
/// (`&str`/`String`: UTF-8; integers and `Mode`: UTF-8 then `FromStr`; `UnixStr`: anything).
/// Returns the canonical bytes of the value.
pub fn convert(ty: Ty, a: &[u8]) -> Option<Vec<u8>> {
    fn num<T: FromStr + ToString>(a: &[u8]) -> Option<Vec<u8>> {
        let s = std::str::from_utf8(a).ok()?;
        Some(T::from_str(s).ok()?.to_string().into_bytes())
    }
    match ty {
        Ty::UStr => Some(a.to_vec()),
        Ty::Str | Ty::String => std::str::from_utf8(a).ok().map(|s| s.as_bytes().to_vec()),
        Ty::I32 => num::<i32>(a),
        Ty::I64 => num::<i64>(a),
        Ty::U8 => num::<u8>(a),
        Ty::U16 => num::<u16>(a),
        Ty::U32 => num::<u32>(a),
        Ty::Mode => {
            let s = std::str::from_utf8(a).ok()?;
            Mode::from_str(s).ok().map(|m| m.name().as_bytes().to_vec())
        }
    }
}

/// Is `m` a well-formed value of `spec` whose rendering is unambiguous? (domain check for
/// replayed / shrunk cases; generators construct such values directly)
pub fn well_formed(spec: &'static Spec, m: &Model) -> bool {
    if m.opts.len() != spec.opts.len() || m.pos.len() != spec.pos.len() {
        return false;
    }
    for (o, vals) in spec.opts.iter().zip(&m.opts) {
        let n_ok = match o.kind {
            Kind::Flag => vals.len() <= 1 && vals.iter().all(|v| v.0.is_empty()),
            Kind::Req => vals.len() == 1,
            Kind::Opt => vals.len() <= 1,
            Kind::Many => true,
        };
        if !n_ok {
            return false;
        }
        if o.kind != Kind::Flag {
            for v in vals {
                // the argument after a value-taking option is its value whatever it looks like, so
                // words of the grammar are legal option values (not so for positionals below)
                if v.0.contains(&0) || convert(o.ty, &v.0).as_deref() != Some(&v.0[..]) {
                    return false;
                }
            }
        }
    }
    let mut seen_none = false;
    for (p, v) in spec.pos.iter().zip(&m.pos) {
        match v {
            None => {
                if !p.optional {
                    return false;
                }
                seen_none = true;
            }
            Some(v) => {
                if seen_none || v.0.contains(&0) || spec.is_reserved(&v.0) || convert(p.ty, &v.0).as_deref() != Some(&v.0[..]) {
                    return false;
                }
            }
        }
    }
    match (&spec.sub, &m.sub) {
        (None, None) => true,
        (None, Some(_)) => false,
        (Some(s), None) => s.optional,
        (Some(s), Some(sm)) => {
            let Some(c) = s.cmds.get(sm.cmd) else { return false };
            match (c.inner, &sm.inner) {
                (None, None) => true,
                (Some(i), Some(im)) => well_formed(i, im),
                _ => false,
            }
        }
    }
}

// ------------------------------------------------------------------------------------ render

/// Draws that decide the order of the option occurrences and the alias used for each.
#[derive(Clone, Debug, Serialize, Deserialize)]
pub struct Layout {
    pub order: Vec<u16>,
    pub alias: Vec<bool>,
}

pub struct Rendered {
    pub args: Vec<Vec<u8>>,
    /// some level has >= 2 option occurrences that are not in declaration order
    pub reordered: bool,
    pub used_short: bool,
    pub used_long: bool,
}

/// `options (in the order given by the layout) positionals (in order) [subcommand ...]`
pub fn render(spec: &'static Spec, m: &Model, lay: &Layout) -> Rendered {
    let mut r = Rendered { args: Vec::new(), reordered: false, used_short: false, used_long: false };
    let mut ctr = 0usize;
    render_level(spec, m, lay, &mut ctr, &mut r);
    r
}

fn render_level(spec: &'static Spec, m: &Model, lay: &Layout, ctr: &mut usize, r: &mut Rendered) {
    // occurrences (option index) with a sort key from the layout
    let mut occ: Vec<(u16, usize, usize)> = Vec::new(); // (key, tie, opt)
    for (oi, vals) in m.opts.iter().enumerate() {
        for _ in vals {
            let key = if lay.order.is_empty() { 0 } else { lay.order[*ctr % lay.order.len()] };
            *ctr += 1;
            occ.push((key, occ.len(), oi));
        }
    }
    let decl: Vec<usize> = occ.iter().map(|o| o.2).collect();
    occ.sort();
    let order: Vec<usize> = occ.iter().map(|o| o.2).collect();
    if order.len() >= 2 && order != decl {
        r.reordered = true;
    }
    // values of one (repeated) option keep their relative order
    let mut next_val = vec![0usize; m.opts.len()];
    for oi in order {
        let o = &spec.opts[oi];
        let pick_long = if lay.alias.is_empty() { false } else { lay.alias[*ctr % lay.alias.len()] };
        *ctr += 1;
        let tok = match (o.short_tok(), o.long_tok()) {
            (Some(s), Some(l)) => {
                if pick_long {
                    r.used_long = true;
                    l
                } else {
                    r.used_short = true;
                    s
                }
            }
            (Some(s), None) => {
                r.used_short = true;
                s
            }
            (None, Some(l)) => {
                r.used_long = true;
                l
            }
            (None, None) => unreachable!("option without alias in spec"),
        };
        r.args.push(tok);
        if o.kind != Kind::Flag {
            r.args.push(m.opts[oi][next_val[oi]].0.clone());
        }
        next_val[oi] += 1;
    }
    for v in m.pos.iter().flatten() {
        r.args.push(v.0.clone());
    }
    if let (Some(ss), Some(sm)) = (&spec.sub, &m.sub) {
        let c = &ss.cmds[sm.cmd];
        r.args.push(c.name.as_bytes().to_vec());
        if let (Some(i), Some(im)) = (c.inner, &sm.inner) {
            render_level(i, im, lay, ctr, r);
        }
    }
}

// ------------------------------------------------------------------------------------ recogniser

#[derive(Clone, Debug, PartialEq, Eq)]
pub struct Reject {
    /// index into `Recognised::chain` of the struct level that detects the error
    pub level: usize,
    /// the error is a help request (`-h` / `--help` where a word of the grammar is expected)
    pub help: bool,
    pub why: &'static str,
}

#[derive(Debug)]
pub struct Recognised {
    pub result: Result<Model, Reject>,
    /// The line is outside the part of the grammar on which every reading of the declaration
    /// agrees: a value that is itself a word of the grammar (`--name -h`, `--req --opt`), an
    /// option given twice, an option after a positional or after a subcommand, two subcommands,
    /// a word of an outer level inside a subcommand.
    pub ambiguous: bool,
    /// struct levels entered, outermost first
    pub chain: Vec<&'static Spec>,
    /// levels (indices into chain) that lacked a required option when a subcommand with its
    /// own arguments took over the rest of the line
    pub outer_missing: Vec<usize>,
    pub saw_missing_value_at_end: bool,
}

pub fn recognise(spec: &'static Spec, args: &[Vec<u8>]) -> Recognised {
    let mut st = Recognised { result: Err(Reject { level: 0, help: false, why: "" }), ambiguous: false, chain: vec![spec], outer_missing: Vec::new(), saw_missing_value_at_end: false };
    let mut i = 0usize;
    let res = rec_level(spec, args, &mut i, &mut st, 0, &[]);
    st.result = res;
    st
}

fn rec_level(spec: &'static Spec, args: &[Vec<u8>], i: &mut usize, st: &mut Recognised, level: usize, outer_words: &[Vec<u8>]) -> Result<Model, Reject> {
    let rej = |why: &'static str| Reject { level, help: false, why };
    let mut opts: Vec<Vec<BStr>> = vec![Vec::new(); spec.opts.len()];
    let mut pos: Vec<Option<BStr>> = vec![None; spec.pos.len()];
    let mut sub: Option<SubModel> = None;
    let mut seen_pos = false;
    while *i < args.len() {
        let a = &args[*i];
        *i += 1;
        if let Some(oi) = spec.opt_by_token(a) {
            let o = &spec.opts[oi];
            if seen_pos || sub.is_some() {
                st.ambiguous = true; // option after a positional / after a subcommand
            }
            if o.kind == Kind::Flag {
                if !opts[oi].is_empty() {
                    st.ambiguous = true; // flag given twice
                }
                opts[oi] = vec![BStr(Vec::new())];
                continue;
            }
            if *i >= args.len() {
                st.saw_missing_value_at_end = true;
                return Err(rej("option without value at end of line"));
            }
            let v = &args[*i];
            *i += 1;
            // the argument after a value-taking option is its value, whatever it looks like
            let Some(c) = convert(o.ty, v) else {
                return Err(rej("malformed option value"));
            };
            if o.kind == Kind::Many {
                opts[oi].push(BStr(c));
            } else {
                if !opts[oi].is_empty() {
                    st.ambiguous = true; // single-valued option given twice
                }
                opts[oi] = vec![BStr(c)];
            }
        } else if is_help(a) {
            return Err(Reject { level, help: true, why: "help requested" });
        } else if let Some(ss) = &spec.sub {
            let Some(ci) = ss.cmds.iter().position(|c| c.name.as_bytes() == &a[..]) else {
                if outer_words.iter().any(|w| w == a) {
                    st.ambiguous = true;
                }
                return Err(rej("neither option nor subcommand"));
            };
            if sub.is_some() {
                st.ambiguous = true; // second subcommand
            }
            match ss.cmds[ci].inner {
                None => sub = Some(SubModel { cmd: ci, inner: None }),
                Some(inner) => {
                    if spec.opts.iter().zip(&opts).any(|(o, v)| o.kind == Kind::Req && v.is_empty()) {
                        st.outer_missing.push(level);
                    }
                    st.chain.push(inner);
                    let mut words = outer_words.to_vec();
                    words.extend(spec.option_tokens());
                    words.extend(ss.cmds.iter().map(|c| c.name.as_bytes().to_vec()));
                    let lvl = st.chain.len() - 1;
                    let im = rec_level(inner, args, i, st, lvl, &words)?;
                    sub = Some(SubModel { cmd: ci, inner: Some(Box::new(im)) });
                }
            }
        } else {
            // positional: the first free slot takes the argument, whatever it looks like
            let Some(k) = pos.iter().position(|p| p.is_none()) else {
                if outer_words.iter().any(|w| w == a) {
                    st.ambiguous = true;
                }
                return Err(rej("unexpected argument"));
            };
            let Some(c) = convert(spec.pos[k].ty, a) else {
                return Err(rej("malformed positional value"));
            };
            pos[k] = Some(BStr(c));
            seen_pos = true;
        }
    }
    for (o, v) in spec.opts.iter().zip(&opts) {
        if o.kind == Kind::Req && v.is_empty() {
            return Err(rej("required option missing"));
        }
    }
    for (p, v) in spec.pos.iter().zip(&pos) {
        if !p.optional && v.is_none() {
            return Err(rej("required positional missing"));
        }
    }
    if let Some(ss) = &spec.sub {
        if !ss.optional && sub.is_none() {
            return Err(rej("required subcommand missing"));
        }
    }
    Ok(Model { opts, pos, sub })
}
