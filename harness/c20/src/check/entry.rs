//! "entry": the way a program really meets its parser - `tiny_std::unix::cli::parse_cli_args::<T>()` in a
//! no-libc binary started through tiny-std's own entry point (probes/cli): the kernel's argument vector goes
//! through `env::args_os()`, the program name is popped, the rest is parsed; on failure the error is printed
//! to stderr and the process exits 1.
//!
//! Oracle (differential): the same struct (`entry_struct.rs`, included by both sides) parsed in-process from
//! the same arguments - whose verdicts the `rt`/`robust` sub-checks judge against the declared grammar.
//! Parsed value => the probe exits 0 and prints exactly that value, nothing on stderr; error => exit 1,
//! nothing on stdout, stderr is exactly the error's `Display` and a newline.
use std::os::unix::ffi::OsStrExt;
use std::os::unix::process::ExitStatusExt;

use serde::{Deserialize, Serialize};
use vh::runner::{CaseReport, CaseResult, Failure};
use vh::util::{escape, BStr};

use super::model::Model;
use super::shapes::{shape_by_name, Outcome};
use super::{call, show_args, Env};

pub const BUILDS: [(&str, &str); 2] = [("dyn-debug", "debug"), ("pie-release", "release")];

#[derive(Clone, Debug, Serialize, Deserialize)]
pub struct EntryCase {
    pub args: Vec<BStr>,
    /// index into BUILDS
    pub build: u8,
}

pub fn probe_path(b: usize) -> String {
    format!("{}/probes/target-{}/x86_64-unknown-linux-gnu/{}/probe-cli", vh::runner::verif_root(), BUILDS[b].0, BUILDS[b].1)
}

fn hex(out: &mut String, b: &[u8]) {
    if b.is_empty() {
        out.push('e');
    }
    for c in b {
        out.push_str(&format!("{c:02x}"));
    }
}

/// the text the probe prints for a parsed value
pub fn canonical(m: &Model) -> String {
    let mut out = String::new();
    for (i, vals) in m.opts.iter().enumerate() {
        out.push_str(&format!("o{i}"));
        for v in vals {
            out.push(' ');
            hex(&mut out, &v.0);
        }
        out.push('\n');
    }
    for (i, v) in m.pos.iter().enumerate() {
        out.push_str(&format!("p{i} "));
        match v {
            Some(v) => hex(&mut out, &v.0),
            None => out.push_str("none"),
        }
        out.push('\n');
    }
    out
}

pub fn check_entry(env: &Env, c: &EntryCase) -> CaseResult {
    let mut rep = CaseReport::new();
    let entry = shape_by_name("Entry").expect("shape Entry");
    let args: Vec<Vec<u8>> = c.args.iter().map(|a| a.0.iter().copied().filter(|x| *x != 0).collect()).collect();
    // the kernel takes single strings up to 32 pages and the whole vector within a share of the stack limit
    if args.iter().any(|a| a.len() >= 131_000) || args.iter().map(|a| a.len() + 9).sum::<usize>() > 1_500_000 {
        return Ok(rep);
    }
    let b = (c.build as usize).min(BUILDS.len() - 1);
    let inproc = call(&env.store, entry, &args)?;
    let out = std::process::Command::new(probe_path(b)).args(args.iter().map(|a| std::ffi::OsStr::from_bytes(a))).env_clear().stdin(std::process::Stdio::null()).output();
    let out = match out {
        Ok(o) => o,
        Err(e) => {
            eprintln!("[C20 entry] the probe could not be started: {e}");
            rep.class("inconclusive-probe-not-started");
            return Ok(rep);
        }
    };
    let line = show_args(&args);
    let how = format!("probe-cli ({}) started with {line}", BUILDS[b].0);
    if let Some(sig) = out.status.signal() {
        return Err(Failure::new("parse_cli_args|process killed", format!("{how}: killed by signal {sig}; stderr: {}", escape(&out.stderr[..out.stderr.len().min(300)]))));
    }
    let code = out.status.code().unwrap_or(-1);
    match inproc {
        Outcome::Parsed(m) => {
            let want = canonical(&m);
            if code != 0 {
                return Err(Failure::new("parse_cli_args|rejected-what-arg_parse-accepts", format!("{how}: exit {code}, stderr {:?}; the same arguments parse in-process to\n{want}", escape(&out.stderr[..out.stderr.len().min(400)]))));
            }
            if out.stdout != want.as_bytes() {
                return Err(Failure::new("parse_cli_args|different-value", format!("{how}: the program got\n{}the same arguments parse in-process to\n{want}", String::from_utf8_lossy(&out.stdout))));
            }
            if !out.stderr.is_empty() {
                return Err(Failure::new("parse_cli_args|stderr-on-success", format!("{how}: parsed, but stderr holds {:?}", escape(&out.stderr[..out.stderr.len().min(300)]))));
            }
            rep.class("entry-parsed");
            rep.nontrivial = args.len() >= 3;
        }
        Outcome::Error { display: Ok(d), .. } => {
            if code == 0 {
                return Err(Failure::new("parse_cli_args|accepted-what-arg_parse-rejects", format!("{how}: exit 0 with\n{}in-process the same arguments are rejected: {:?}", String::from_utf8_lossy(&out.stdout), escape(d.as_bytes()))));
            }
            if code != 1 {
                return Err(Failure::new("parse_cli_args|wrong-exit-code", format!("{how}: rejected, exit code {code} (documented: 1); stderr {:?}", escape(&out.stderr[..out.stderr.len().min(300)]))));
            }
            if !out.stdout.is_empty() {
                return Err(Failure::new("parse_cli_args|stdout-on-failure", format!("{how}: rejected, but stdout holds {:?}", escape(&out.stdout[..out.stdout.len().min(300)]))));
            }
            let want = format!("{d}\n");
            if out.stderr != want.as_bytes() {
                let at = out.stderr.iter().zip(want.as_bytes()).position(|(a, b)| a != b).unwrap_or(out.stderr.len().min(want.len()));
                return Err(Failure::new("parse_cli_args|error-text-differs", format!("{how}: stderr ({} bytes) differs from the error's Display plus newline ({} bytes) at byte {at}: got {:?}, expected {:?}", out.stderr.len(), want.len(), escape(&out.stderr[at.saturating_sub(20)..(at + 40).min(out.stderr.len())]), escape(&want.as_bytes()[at.saturating_sub(20)..(at + 40).min(want.len())]))));
            }
            rep.class("entry-rejected-with-help-on-stderr");
            rep.nontrivial = !args.is_empty();
        }
        Outcome::Error { .. } => {
            rep.class("skipped-error-does-not-render");
        }
    }
    rep.class(if b == 0 { "build dyn-debug" } else { "build pie-release" });
    rep.class_if(args.is_empty(), "no-arguments");
    rep.class_if(args.iter().any(|a| std::str::from_utf8(a).is_err()), "non-utf8-argument");
    rep.class_if(args.iter().any(|a| a.len() > 4096), "argument-longer-than-a-page");
    Ok(rep)
}
