//! proptest strategies: field values, struct values, layouts, argument soups and mutations.
use proptest::prelude::*;
use serde::{Deserialize, Serialize};
use vh::runner::pick_idx;
use vh::util::BStr;

use super::model::{render, Kind, Layout, Model, Spec, SubModel, Ty};
use super::shapes::SHAPES;

#[derive(Clone, Debug, Serialize, Deserialize)]
pub struct RtCase {
    pub shape: String,
    pub value: Model,
    pub layout: Layout,
}

#[derive(Clone, Debug, Serialize, Deserialize)]
pub struct RobCase {
    pub shape: String,
    pub args: Vec<BStr>,
}

const CHARS: [char; 18] = ['a', 'b', 'z', '0', '9', ' ', '-', '=', 'é', '→', '𝄞', '"', '\\', '\n', '\t', '\'', '#', 'h'];
const DICT: [&str; 20] = ["-", "--", "-x", "--num=3", "-hh", "--helpx", "-H", "run", "clean", "", "--", "-1", "=", "- h", "--help ", " -h", "--Help", "-s=1", "alpha", "--long=5"];

/// lengths around the places where an echoed argument makes the cause text cross 128 bytes,
/// and some far beyond (up to 10 kB)
fn long_len() -> BoxedStrategy<usize> {
    // ... and around the multiples of 256 (a length kept in a byte would wrap there)
    prop_oneof![4 => 60usize..140, 2 => 140usize..1024, 2 => 250usize..=360, 1 => 505usize..=620, 1 => 1024usize..10241, 1 => prop::sample::select(vec![4096usize, 4100, 65_536, 65_600])].boxed()
}

fn utf8_short() -> BoxedStrategy<Vec<u8>> {
    prop::collection::vec(prop::sample::select(CHARS.to_vec()), 0..10).prop_map(|cs| cs.into_iter().collect::<String>().into_bytes()).boxed()
}

fn utf8_long() -> BoxedStrategy<Vec<u8>> {
    // half of the long values are one uninterrupted run of plain letters (what `{:?}` writes in one piece)
    (prop_oneof![1 => prop::collection::vec(prop::sample::select(CHARS.to_vec()), 1..6), 1 => prop::collection::vec(prop::sample::select(vec!['a', 'b', 'Z', '7']), 1..4)], long_len())
        .prop_map(|(chunk, len)| {
            let chunk: String = chunk.into_iter().collect();
            let mut s = String::new();
            while s.len() + chunk.len() <= len {
                s.push_str(&chunk);
            }
            while s.len() < len {
                s.push('x');
            }
            s.into_bytes()
        })
        .boxed()
}

/// UTF-8 strings: spaces, leading dashes, `=`, unicode, quotes, control characters, empty, long
pub fn utf8_val() -> BoxedStrategy<Vec<u8>> {
    prop_oneof![
        12 => utf8_short(),
        4 => (prop::sample::select(vec!["-", "--", "---", "-h", "--help", "--num"]), utf8_short()).prop_map(|(p, mut s)| {
            let mut v = p.as_bytes().to_vec();
            v.append(&mut s);
            v
        }),
        3 => prop::sample::select(DICT.to_vec()).prop_map(|s| s.as_bytes().to_vec()),
        1 => utf8_long(),
    ]
    .boxed()
}

/// arbitrary NUL-free bytes (mostly not UTF-8), sometimes UTF-8, sometimes long
pub fn bytes_val() -> BoxedStrategy<Vec<u8>> {
    prop_oneof![
        8 => prop::collection::vec(1u8..=255u8, 0..16),
        3 => prop::collection::vec(prop_oneof![Just(b'-'), Just(b'a'), 0x80u8..=0xffu8], 1..8),
        4 => utf8_val(),
        1 => (1u8..=255u8, 0x80u8..=0xffu8, long_len()).prop_map(|(a, b, len)| {
            let mut v = vec![a; len];
            if len > 0 {
                v[len / 2] = b;
            }
            v
        }),
    ]
    .boxed()
}

fn int_val<T>() -> BoxedStrategy<Vec<u8>>
where
    T: Arbitrary + ToString + Copy + std::fmt::Debug + 'static + TryFrom<i64>,
{
    let edges: Vec<T> = [i64::MIN, i32::MIN as i64, -129, -128, -1, 0, 1, 127, 128, 255, 256, 65535, 65536, i32::MAX as i64, u32::MAX as i64, i64::MAX].iter().filter_map(|&x| T::try_from(x).ok()).collect();
    prop_oneof![3 => any::<T>(), 1 => prop::sample::select(edges)].prop_map(|x| x.to_string().into_bytes()).boxed()
}

/// canonical argument bytes of a value of type `ty`
pub fn val(ty: Ty) -> BoxedStrategy<Vec<u8>> {
    match ty {
        Ty::Str | Ty::String => utf8_val(),
        Ty::UStr => bytes_val(),
        Ty::I32 => int_val::<i32>(),
        Ty::I64 => int_val::<i64>(),
        Ty::U8 => int_val::<u8>(),
        Ty::U16 => int_val::<u16>(),
        Ty::U32 => int_val::<u32>(),
        Ty::Mode => prop::sample::select(vec!["fast", "slow", "auto"]).prop_map(|s| s.as_bytes().to_vec()).boxed(),
    }
}

/// A value whose rendering would collide with a word of the grammar at its level is moved off
/// that word (constructive, no rejection).
fn off_reserved(spec: &'static Spec, mut v: Vec<u8>) -> BStr {
    if spec.is_reserved(&v) {
        v.push(b'_');
    }
    BStr(v)
}

pub fn model(spec: &'static Spec) -> BoxedStrategy<Model> {
    let opts: Vec<BoxedStrategy<Vec<BStr>>> = spec
        .opts
        .iter()
        .map(|o| {
            // the argument that follows a value-taking option is the value, whatever it looks like:
            // words of the grammar (help flags, option tokens, subcommand names) are legal values
            let v = match o.ty {
                Ty::Str | Ty::String | Ty::UStr => {
                    let mut words = spec.vocabulary();
                    words.push(b"-h".to_vec());
                    words.push(b"--help".to_vec());
                    prop_oneof![6 => val(o.ty), 1 => prop::sample::select(words)].prop_map(BStr).boxed()
                }
                _ => val(o.ty).prop_map(BStr).boxed(),
            };
            match o.kind {
                Kind::Flag => any::<bool>().prop_map(|b| if b { vec![BStr(Vec::new())] } else { Vec::new() }).boxed(),
                Kind::Req => v.prop_map(|x| vec![x]).boxed(),
                Kind::Opt => prop_oneof![1 => Just(Vec::new()), 3 => v.prop_map(|x| vec![x])].boxed(),
                // mostly a few occurrences; now and then dozens, rarely hundreds (nothing in the grammar bounds a repeated option)
                Kind::Many => prop_oneof![40 => prop::collection::vec(v.clone(), 0..5), 3 => prop::collection::vec(v.clone(), 5..40), 1 => prop::collection::vec(v, 200..400)].boxed(),
            }
        })
        .collect();
    // positionals: required ones present; an optional one (always last) present or absent
    let pos: Vec<BoxedStrategy<Option<BStr>>> = spec
        .pos
        .iter()
        .map(|p| {
            let v = val(p.ty).prop_map(move |v| off_reserved(spec, v));
            if p.optional {
                prop_oneof![1 => Just(None), 2 => v.prop_map(Some)].boxed()
            } else {
                v.prop_map(Some).boxed()
            }
        })
        .collect();
    let sub: BoxedStrategy<Option<SubModel>> = match &spec.sub {
        None => Just(None).boxed(),
        Some(ss) => {
            let mut alts: Vec<(u32, BoxedStrategy<Option<SubModel>>)> = Vec::new();
            if ss.optional {
                alts.push((1, Just(None).boxed()));
            }
            for (ci, c) in ss.cmds.iter().enumerate() {
                match c.inner {
                    None => alts.push((1, Just(Some(SubModel { cmd: ci, inner: None })).boxed())),
                    Some(inner) => alts.push((2, model(inner).prop_map(move |m| Some(SubModel { cmd: ci, inner: Some(Box::new(m)) })).boxed())),
                }
            }
            proptest::strategy::Union::new_weighted(alts).boxed()
        }
    };
    (opts, pos, sub).prop_map(|(opts, pos, sub)| Model { opts, pos, sub }).boxed()
}

pub fn layout() -> BoxedStrategy<Layout> {
    (prop::collection::vec(any::<u16>(), 12), prop::collection::vec(any::<bool>(), 12)).prop_map(|(order, alias)| Layout { order, alias }).boxed()
}

pub fn rt_case() -> BoxedStrategy<RtCase> {
    (0..SHAPES.len())
        .prop_flat_map(|si| {
            let spec = SHAPES[si].spec;
            (model(spec), layout()).prop_map(move |(value, layout)| RtCase { shape: spec.name.to_string(), value, layout })
        })
        .boxed()
}

// ------------------------------------------------------------------------------------ robustness

const NUMBERS: [&str; 20] = ["0", "7", "255", "256", "-1", "-129", "65535", "65536", "+5", " 5", "5 ", "0x10", "1e3", "4294967295", "4294967296", "-2147483649", "9223372036854775808", "-9223372036854775808", "٣", "00000000000000000000000000000000000007"];
const MODES: [&str; 12] = ["fast", "slow", "auto", "Fast", "fast ", "bogus", "fail:0:1", "fail:77:1", "fail:78:3", "fail:79:2", "fail:300:7", "fail:x:y"];

/// one argument: words of the grammar, near misses, plausible values, random bytes, long ones
pub fn token(root: &'static Spec) -> BoxedStrategy<Vec<u8>> {
    let mut vocab = root.vocabulary();
    vocab.push(b"-h".to_vec());
    vocab.push(b"--help".to_vec());
    let known = prop::sample::select(vocab.clone());
    let near = (prop::sample::select(vocab), 0u8..8, prop::sample::select(CHARS.to_vec())).prop_map(|(mut w, how, c)| {
        match how {
            0 => {
                w.insert(0, b'-');
            }
            1 => {
                if !w.is_empty() {
                    w.remove(0);
                }
            }
            2 => {
                let mut b = [0u8; 4];
                w.extend_from_slice(c.encode_utf8(&mut b).as_bytes());
            }
            3 => {
                w.pop();
            }
            4 => w.make_ascii_uppercase(),
            5 => w.extend_from_slice(b"=1"),
            6 => w.push(0xff),
            _ => w.insert(0, b' '),
        }
        w
    });
    let long_echo = (prop_oneof![Just(b'a'), Just(b'#'), Just(b'"'), Just(b'\n'), Just(0xc3u8), 1u8..=255u8], prop_oneof![6 => 90usize..110, 2 => 0usize..300, 1 => 300usize..10241]).prop_map(|(c, len)| vec![c; len]);
    prop_oneof![
        30 => known,
        10 => near,
        8 => prop::sample::select(NUMBERS.to_vec()).prop_map(|s| s.as_bytes().to_vec()),
        5 => prop::sample::select(MODES.to_vec()).prop_map(|s| s.as_bytes().to_vec()),
        16 => bytes_val(),
        4 => Just(Vec::new()),
        10 => utf8_val(),
        6 => long_echo,
    ]
    .boxed()
}

#[derive(Clone, Debug)]
enum Mu {
    Delete(u16),
    Dup(u16),
    Insert(u16, Vec<u8>),
    Replace(u16, Vec<u8>),
    Swap(u16, u16),
    DropLast,
}

fn mutation(root: &'static Spec) -> BoxedStrategy<Mu> {
    prop_oneof![
        2 => any::<u16>().prop_map(Mu::Delete),
        1 => any::<u16>().prop_map(Mu::Dup),
        3 => (any::<u16>(), token(root)).prop_map(|(i, t)| Mu::Insert(i, t)),
        3 => (any::<u16>(), token(root)).prop_map(|(i, t)| Mu::Replace(i, t)),
        1 => (any::<u16>(), any::<u16>()).prop_map(|(i, j)| Mu::Swap(i, j)),
        1 => Just(Mu::DropLast),
    ]
    .boxed()
}

fn apply(mut args: Vec<Vec<u8>>, mus: &[Mu]) -> Vec<Vec<u8>> {
    for m in mus {
        match m {
            Mu::Delete(i) => {
                if !args.is_empty() {
                    args.remove(pick_idx(*i, args.len()));
                }
            }
            Mu::Dup(i) => {
                if !args.is_empty() {
                    let k = pick_idx(*i, args.len());
                    let a = args[k].clone();
                    args.insert(k, a);
                }
            }
            Mu::Insert(i, t) => {
                let k = pick_idx(*i, args.len() + 1);
                args.insert(k, t.clone());
            }
            Mu::Replace(i, t) => {
                if !args.is_empty() {
                    let k = pick_idx(*i, args.len());
                    args[k] = t.clone();
                }
            }
            Mu::Swap(i, j) => {
                if !args.is_empty() {
                    let (a, b) = (pick_idx(*i, args.len()), pick_idx(*j, args.len()));
                    args.swap(a, b);
                }
            }
            Mu::DropLast => {
                args.pop();
            }
        }
    }
    args
}

fn valid_line(spec: &'static Spec) -> BoxedStrategy<Vec<Vec<u8>>> {
    (model(spec), layout()).prop_map(move |(m, l)| render(spec, &m, &l).args).boxed()
}

/// every valued option token of the tree (for "option without its value at the end")
fn valued_tokens(root: &'static Spec) -> Vec<Vec<u8>> {
    root.tree().iter().flat_map(|s| s.opts.iter().filter(|o| o.kind != Kind::Flag).flat_map(|o| o.tokens())).collect()
}

pub fn rob_case() -> BoxedStrategy<RobCase> {
    (0..SHAPES.len()).prop_flat_map(rob_case_for).boxed()
}

/// lines for one shape of the family (by index into SHAPES)
pub fn rob_case_for(si: usize) -> BoxedStrategy<RobCase> {
    Just(si)
        .prop_flat_map(|si| {
            let spec = SHAPES[si].spec;
            let mutated = (valid_line(spec), prop::collection::vec(mutation(spec), 0..4)).prop_map(|(a, mus)| apply(a, &mus)).boxed();
            let help = (valid_line(spec), any::<u16>(), any::<bool>(), any::<bool>())
                .prop_map(|(mut a, at, long, cut)| {
                    let k = pick_idx(at, a.len() + 1);
                    if cut {
                        a.truncate(k);
                    }
                    a.insert(k.min(a.len()), if long { b"--help".to_vec() } else { b"-h".to_vec() });
                    a
                })
                .boxed();
            let long = (valid_line(spec), any::<u16>(), token(spec), long_len(), any::<bool>())
                .prop_map(|(mut a, at, mut t, len, replace)| {
                    // stretch a token to a long argument
                    let pad = if t.last().map(|c| *c >= 0x80).unwrap_or(false) { 0xa9 } else { b'q' };
                    while t.len() < len {
                        t.push(pad);
                    }
                    if replace && !a.is_empty() {
                        let k = pick_idx(at, a.len());
                        a[k] = t;
                    } else {
                        let k = pick_idx(at, a.len() + 1);
                        a.insert(k, t);
                    }
                    a
                })
                .boxed();
            let soup = prop::collection::vec(token(spec), 0..9).boxed();
            let vt = valued_tokens(spec);
            let mut alts: Vec<(u32, BoxedStrategy<Vec<Vec<u8>>>)> = vec![(9, mutated), (2, help), (3, long), (4, soup)];
            if !vt.is_empty() {
                let dangling = (valid_line(spec), prop::sample::select(vt), any::<bool>())
                    .prop_map(move |(mut a, t, strip_sub)| {
                        // the dangling option must stand where its own level reads it: for lines
                        // ending inside a subcommand the token of another level is simply unknown there
                        if strip_sub {
                            a.clear();
                        }
                        a.push(t);
                        a
                    })
                    .boxed();
                alts.push((2, dangling));
            }
            proptest::strategy::Union::new_weighted(alts).prop_map(move |args| RobCase { shape: spec.name.to_string(), args: args.into_iter().map(|mut a| { a.retain(|c| *c != 0); BStr(a) }).collect() })
        })
        .boxed()
}
