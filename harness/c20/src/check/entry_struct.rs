/// The shape behind the real entry point: every packaging, options and positionals.
#[derive(ArgParse)]
#[cli(help_path = "c20, entry")]
pub struct Entry {
    /// required
    #[cli(short = "r", long = "req")]
    pub req: i64,
    #[cli(long = "opt")]
    pub opt: Option<String>,
    #[cli(short = "f")]
    pub f: bool,
    /// repeated
    #[cli(long = "many")]
    pub many: Vec<&'static UnixStr>,
    /// where
    pub path: &'static str,
    pub cnt: Option<u8>,
}
