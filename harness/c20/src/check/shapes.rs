//! The struct family of Appendix C. The derives come from /repo/tiny-cli; next to every derived
//! struct stands its hand-written declaration as data (`Spec`) and the hand-written conversion of
//! a parsed value into the comparison model (`Shape::to_model`).
#![allow(non_camel_case_types)]
use std::fmt::Write as _;
use std::str::FromStr;

use tiny_cli::{ArgParse, Subcommand};
use tiny_std::unix::cli::ArgParse as ArgParseTrait;
use tiny_std::UnixStr;
use vh::util::BStr;

use super::model::{CmdSpec, Kind, Model, OptSpec, PosSpec, Spec, SubModel, SubSpec, Ty};

// ------------------------------------------------------------------------------------ Mode

/// Custom `FromStr` field type. Its error text is under the control of the harness:
/// `fail:<n>:<k>` fails with an error whose Display writes exactly `n` bytes `#` in `k` pieces,
/// anything else that is not a mode name fails with a long text (> 128 bytes) echoing the input.
#[derive(Clone, Copy, Debug, PartialEq, Eq)]
pub enum Mode {
    Fast,
    Slow,
    Auto,
}

impl Mode {
    pub fn name(&self) -> &'static str {
        match self {
            Mode::Fast => "fast",
            Mode::Slow => "slow",
            Mode::Auto => "auto",
        }
    }
}

#[derive(Debug)]
pub enum ModeErr {
    Filler { n: usize, k: usize },
    Unknown(String),
}

impl std::fmt::Display for ModeErr {
    fn fmt(&self, f: &mut std::fmt::Formatter<'_>) -> std::fmt::Result {
        match self {
            ModeErr::Filler { n, k } => {
                let k = (*k).max(1);
                let mut left = *n;
                for piece in 0..k {
                    let take = if piece + 1 == k { left } else { n / k };
                    left -= take;
                    f.write_str(&"#".repeat(take))?;
                }
                Ok(())
            }
            ModeErr::Unknown(s) => write!(f, "unknown mode '{s}': this field accepts exactly one of the three mode names fast, slow and auto (lower case, no surrounding white space); nothing else is a mode"),
        }
    }
}

impl FromStr for Mode {
    type Err = ModeErr;
    fn from_str(s: &str) -> Result<Self, ModeErr> {
        match s {
            "fast" => Ok(Mode::Fast),
            "slow" => Ok(Mode::Slow),
            "auto" => Ok(Mode::Auto),
            _ => {
                if let Some(rest) = s.strip_prefix("fail:") {
                    if let Some((n, k)) = rest.split_once(':') {
                        if let (Ok(n), Ok(k)) = (n.parse::<usize>(), k.parse::<usize>()) {
                            if n <= 100_000 && k <= 64 {
                                return Err(ModeErr::Filler { n, k });
                            }
                        }
                    }
                }
                Err(ModeErr::Unknown(s.to_string()))
            }
        }
    }
}

// ------------------------------------------------------------------------------------ helpers

pub trait Shape: ArgParseTrait {
    const SPEC: &'static Spec;
    fn to_model(&self) -> Model;
}

fn help_of<T: ArgParseTrait>() -> Result<String, ()>
where
    T::HelpPrinter: 'static,
{
    let mut s = String::new();
    write!(s, "{}", T::help_printer()).map_err(|_| ())?;
    Ok(s)
}

fn b(x: &[u8]) -> BStr {
    BStr(x.to_vec())
}
fn num<T: ToString>(x: T) -> BStr {
    BStr(x.to_string().into_bytes())
}
fn us(u: &UnixStr) -> BStr {
    let s = u.as_slice();
    // contents without the terminator
    BStr(s[..s.len().saturating_sub(1)].to_vec())
}
fn flag(x: bool) -> Vec<BStr> {
    if x {
        vec![BStr(Vec::new())]
    } else {
        Vec::new()
    }
}
fn one(x: BStr) -> Vec<BStr> {
    vec![x]
}
fn opt(x: Option<BStr>) -> Vec<BStr> {
    x.into_iter().collect()
}
fn mode(m: &Mode) -> BStr {
    b(m.name().as_bytes())
}

const fn o(short: Option<&'static str>, long: Option<&'static str>, kind: Kind, ty: Ty) -> OptSpec {
    OptSpec { short, long, kind, ty }
}
const fn p(name: &'static str, ty: Ty, optional: bool) -> PosSpec {
    PosSpec { name, ty, optional }
}

// ------------------------------------------------------------------------------------ 1 ReqOpt

#[derive(ArgParse)]
#[cli(help_path = "c20, req-opt")]
pub struct ReqOpt {
    #[cli(long = "num")]
    pub num: i32,
}
pub static REQ_OPT: Spec = Spec { name: "ReqOpt", opts: &[o(None, Some("num"), Kind::Req, Ty::I32)], pos: &[], sub: None, help: help_of::<ReqOpt> };
impl Shape for ReqOpt {
    const SPEC: &'static Spec = &REQ_OPT;
    fn to_model(&self) -> Model {
        Model { opts: vec![one(num(self.num))], pos: vec![], sub: None }
    }
}

// ------------------------------------------------------------------------------------ 2 Aliases

#[derive(ArgParse)]
pub struct Aliases {
    #[cli(short = "s", long = "long")]
    pub val: i32,
}
pub static ALIASES: Spec = Spec { name: "Aliases", opts: &[o(Some("s"), Some("long"), Kind::Req, Ty::I32)], pos: &[], sub: None, help: help_of::<Aliases> };
impl Shape for Aliases {
    const SPEC: &'static Spec = &ALIASES;
    fn to_model(&self) -> Model {
        Model { opts: vec![one(num(self.val))], pos: vec![], sub: None }
    }
}

// ------------------------------------------------------------------------------------ 3 Flags

/// Two switches
#[derive(ArgParse)]
#[cli(help_path = "c20, flags")]
pub struct Flags {
    /// first switch
    #[cli(short = "a")]
    pub a: bool,
    #[cli(short = "b", long = "bee")]
    pub bee: bool,
}
pub static FLAGS: Spec = Spec { name: "Flags", opts: &[o(Some("a"), None, Kind::Flag, Ty::Str), o(Some("b"), Some("bee"), Kind::Flag, Ty::Str)], pos: &[], sub: None, help: help_of::<Flags> };
impl Shape for Flags {
    const SPEC: &'static Spec = &FLAGS;
    fn to_model(&self) -> Model {
        Model { opts: vec![flag(self.a), flag(self.bee)], pos: vec![], sub: None }
    }
}

// ------------------------------------------------------------------------------------ 4 OptOpt

#[derive(ArgParse)]
#[cli(help_path = "c20, opt-opt")]
pub struct OptOpt {
    #[cli(long = "name")]
    pub name: Option<&'static str>,
}
pub static OPT_OPT: Spec = Spec { name: "OptOpt", opts: &[o(None, Some("name"), Kind::Opt, Ty::Str)], pos: &[], sub: None, help: help_of::<OptOpt> };
impl Shape for OptOpt {
    const SPEC: &'static Spec = &OPT_OPT;
    fn to_model(&self) -> Model {
        Model { opts: vec![opt(self.name.map(|s| b(s.as_bytes())))], pos: vec![], sub: None }
    }
}

// ------------------------------------------------------------------------------------ 5 Rep

#[derive(ArgParse)]
#[cli(help_path = "c20, rep")]
pub struct Rep {
    #[cli(short = "v", long = "val")]
    pub vals: Vec<u16>,
}
pub static REP: Spec = Spec { name: "Rep", opts: &[o(Some("v"), Some("val"), Kind::Many, Ty::U16)], pos: &[], sub: None, help: help_of::<Rep> };
impl Shape for Rep {
    const SPEC: &'static Spec = &REP;
    fn to_model(&self) -> Model {
        Model { opts: vec![self.vals.iter().map(|v| num(*v)).collect()], pos: vec![], sub: None }
    }
}

// ------------------------------------------------------------------------------------ 6 Mixed

/// Every packaging at once
#[derive(ArgParse)]
#[cli(help_path = "c20, mixed")]
pub struct Mixed {
    /// required
    #[cli(long = "req")]
    pub req: i64,
    #[cli(long = "opt")]
    pub opt: Option<String>,
    #[cli(short = "f")]
    pub f: bool,
    /// repeated
    #[cli(long = "many")]
    pub many: Vec<&'static UnixStr>,
}
pub static MIXED: Spec = Spec {
    name: "Mixed",
    opts: &[o(None, Some("req"), Kind::Req, Ty::I64), o(None, Some("opt"), Kind::Opt, Ty::String), o(Some("f"), None, Kind::Flag, Ty::Str), o(None, Some("many"), Kind::Many, Ty::UStr)],
    pos: &[],
    sub: None,
    help: help_of::<Mixed>,
};
impl Shape for Mixed {
    const SPEC: &'static Spec = &MIXED;
    fn to_model(&self) -> Model {
        Model { opts: vec![one(num(self.req)), opt(self.opt.as_ref().map(|s| b(s.as_bytes()))), flag(self.f), self.many.iter().map(|u| us(u)).collect()], pos: vec![], sub: None }
    }
}

// ------------------------------------------------------------------------------------ 7 Pos1

#[derive(ArgParse)]
#[cli(help_path = "c20, pos1")]
pub struct Pos1 {
    pub file: &'static UnixStr,
}
pub static POS1: Spec = Spec { name: "Pos1", opts: &[], pos: &[p("file", Ty::UStr, false)], sub: None, help: help_of::<Pos1> };
impl Shape for Pos1 {
    const SPEC: &'static Spec = &POS1;
    fn to_model(&self) -> Model {
        Model { opts: vec![], pos: vec![Some(us(self.file))], sub: None }
    }
}

// ------------------------------------------------------------------------------------ 8 Pos2

#[derive(ArgParse)]
#[cli(help_path = "c20, pos2")]
pub struct Pos2 {
    pub first: String,
    pub second: i64,
}
pub static POS2: Spec = Spec { name: "Pos2", opts: &[], pos: &[p("first", Ty::String, false), p("second", Ty::I64, false)], sub: None, help: help_of::<Pos2> };
impl Shape for Pos2 {
    const SPEC: &'static Spec = &POS2;
    fn to_model(&self) -> Model {
        Model { opts: vec![], pos: vec![Some(b(self.first.as_bytes())), Some(num(self.second))], sub: None }
    }
}

// ------------------------------------------------------------------------------------ 9 PosOpt

#[derive(ArgParse)]
#[cli(help_path = "c20, pos-opt")]
pub struct PosOpt {
    pub first: String,
    pub second: Option<u8>,
}
pub static POS_OPT: Spec = Spec { name: "PosOpt", opts: &[], pos: &[p("first", Ty::String, false), p("second", Ty::U8, true)], sub: None, help: help_of::<PosOpt> };
impl Shape for PosOpt {
    const SPEC: &'static Spec = &POS_OPT;
    fn to_model(&self) -> Model {
        Model { opts: vec![], pos: vec![Some(b(self.first.as_bytes())), self.second.map(num)], sub: None }
    }
}

// ------------------------------------------------------------------------------------ 10 Pos3

#[derive(ArgParse)]
#[cli(help_path = "c20, pos3")]
pub struct Pos3 {
    pub src: &'static str,
    #[cli(arg = "cnt")]
    pub cnt: i64,
    pub dst: Option<&'static UnixStr>,
}
pub static POS3: Spec = Spec { name: "Pos3", opts: &[], pos: &[p("src", Ty::Str, false), p("cnt", Ty::I64, false), p("dst", Ty::UStr, true)], sub: None, help: help_of::<Pos3> };
impl Shape for Pos3 {
    const SPEC: &'static Spec = &POS3;
    fn to_model(&self) -> Model {
        Model { opts: vec![], pos: vec![Some(b(self.src.as_bytes())), Some(num(self.cnt)), self.dst.map(us)], sub: None }
    }
}

// ------------------------------------------------------------------------------------ 11 OptsAndPos

#[derive(ArgParse)]
#[cli(help_path = "c20, opts-and-pos")]
pub struct OptsAndPos {
    #[cli(short = "n")]
    pub n: u8,
    /// free text
    #[cli(long = "tag")]
    pub tag: Option<&'static str>,
    /// where
    pub path: &'static str,
}
pub static OPTS_AND_POS: Spec = Spec {
    name: "OptsAndPos",
    opts: &[o(Some("n"), None, Kind::Req, Ty::U8), o(None, Some("tag"), Kind::Opt, Ty::Str)],
    pos: &[p("path", Ty::Str, false)],
    sub: None,
    help: help_of::<OptsAndPos>,
};
impl Shape for OptsAndPos {
    const SPEC: &'static Spec = &OPTS_AND_POS;
    fn to_model(&self) -> Model {
        Model { opts: vec![one(num(self.n)), opt(self.tag.map(|s| b(s.as_bytes())))], pos: vec![Some(b(self.path.as_bytes()))], sub: None }
    }
}

// ------------------------------------------------------------------------------------ 12 Custom

#[derive(ArgParse)]
#[cli(help_path = "c20, custom")]
pub struct Custom {
    #[cli(short = "m", long = "mode")]
    pub mode: Mode,
    pub fallback: Option<Mode>,
}
pub static CUSTOM: Spec = Spec { name: "Custom", opts: &[o(Some("m"), Some("mode"), Kind::Req, Ty::Mode)], pos: &[p("fallback", Ty::Mode, true)], sub: None, help: help_of::<Custom> };
impl Shape for Custom {
    const SPEC: &'static Spec = &CUSTOM;
    fn to_model(&self) -> Model {
        Model { opts: vec![one(mode(&self.mode))], pos: vec![self.fallback.as_ref().map(mode)], sub: None }
    }
}

// ------------------------------------------------------------------------------------ subcommands

/// What to do
#[derive(Subcommand)]
pub enum Cmd {
    /// Run a target
    Run(RunArgs),
    Clean,
    /// One more level
    Nested(Inner),
}

#[derive(ArgParse)]
#[cli(help_path = "c20, run")]
pub struct RunArgs {
    #[cli(short = "j", long = "jobs")]
    pub jobs: u8,
    pub target: &'static str,
}

#[derive(ArgParse)]
#[cli(help_path = "c20, nested")]
pub struct Inner {
    #[cli(subcommand)]
    pub c: Leaf,
}

#[derive(Subcommand)]
pub enum Leaf {
    Alpha,
    /// two words
    BetaGamma(LeafOpts),
}

#[derive(ArgParse)]
#[cli(help_path = "c20, nested, beta-gamma")]
pub struct LeafOpts {
    #[cli(long = "depth")]
    pub depth: Option<u32>,
    #[cli(short = "x")]
    pub x: bool,
}

pub static RUN_ARGS: Spec = Spec { name: "RunArgs", opts: &[o(Some("j"), Some("jobs"), Kind::Req, Ty::U8)], pos: &[p("target", Ty::Str, false)], sub: None, help: help_of::<RunArgs> };
pub static LEAF_OPTS: Spec = Spec { name: "LeafOpts", opts: &[o(None, Some("depth"), Kind::Opt, Ty::U32), o(Some("x"), None, Kind::Flag, Ty::Str)], pos: &[], sub: None, help: help_of::<LeafOpts> };
pub static LEAF_CMDS: [CmdSpec; 2] = [CmdSpec { name: "alpha", inner: None }, CmdSpec { name: "beta-gamma", inner: Some(&LEAF_OPTS) }];
pub static INNER: Spec = Spec { name: "Inner", opts: &[], pos: &[], sub: Some(SubSpec { optional: false, cmds: &LEAF_CMDS }), help: help_of::<Inner> };
pub static CMD_CMDS: [CmdSpec; 3] = [CmdSpec { name: "run", inner: Some(&RUN_ARGS) }, CmdSpec { name: "clean", inner: None }, CmdSpec { name: "nested", inner: Some(&INNER) }];

impl Shape for RunArgs {
    const SPEC: &'static Spec = &RUN_ARGS;
    fn to_model(&self) -> Model {
        Model { opts: vec![one(num(self.jobs))], pos: vec![Some(b(self.target.as_bytes()))], sub: None }
    }
}
impl Shape for LeafOpts {
    const SPEC: &'static Spec = &LEAF_OPTS;
    fn to_model(&self) -> Model {
        Model { opts: vec![opt(self.depth.map(num)), flag(self.x)], pos: vec![], sub: None }
    }
}
fn leaf_model(l: &Leaf) -> SubModel {
    match l {
        Leaf::Alpha => SubModel { cmd: 0, inner: None },
        Leaf::BetaGamma(x) => SubModel { cmd: 1, inner: Some(Box::new(x.to_model())) },
    }
}
impl Shape for Inner {
    const SPEC: &'static Spec = &INNER;
    fn to_model(&self) -> Model {
        Model { opts: vec![], pos: vec![], sub: Some(leaf_model(&self.c)) }
    }
}
fn cmd_model(c: &Cmd) -> SubModel {
    match c {
        Cmd::Run(r) => SubModel { cmd: 0, inner: Some(Box::new(r.to_model())) },
        Cmd::Clean => SubModel { cmd: 1, inner: None },
        Cmd::Nested(n) => SubModel { cmd: 2, inner: Some(Box::new(n.to_model())) },
    }
}

// ------------------------------------------------------------------------------------ 13 WithSub

/// Tool with a mandatory command
#[derive(ArgParse)]
#[cli(help_path = "c20")]
pub struct WithSub {
    #[cli(short = "v")]
    pub v: bool,
    #[cli(subcommand)]
    pub cmd: Cmd,
}
pub static WITH_SUB: Spec = Spec { name: "WithSub", opts: &[o(Some("v"), None, Kind::Flag, Ty::Str)], pos: &[], sub: Some(SubSpec { optional: false, cmds: &CMD_CMDS }), help: help_of::<WithSub> };
impl Shape for WithSub {
    const SPEC: &'static Spec = &WITH_SUB;
    fn to_model(&self) -> Model {
        Model { opts: vec![flag(self.v)], pos: vec![], sub: Some(cmd_model(&self.cmd)) }
    }
}

// ------------------------------------------------------------------------------------ 14 WithOptSub

#[derive(ArgParse)]
#[cli(help_path = "c20")]
pub struct WithOptSub {
    #[cli(subcommand)]
    pub cmd: Option<Cmd>,
}
pub static WITH_OPT_SUB: Spec = Spec { name: "WithOptSub", opts: &[], pos: &[], sub: Some(SubSpec { optional: true, cmds: &CMD_CMDS }), help: help_of::<WithOptSub> };
impl Shape for WithOptSub {
    const SPEC: &'static Spec = &WITH_OPT_SUB;
    fn to_model(&self) -> Model {
        Model { opts: vec![], pos: vec![], sub: self.cmd.as_ref().map(cmd_model) }
    }
}

// ------------------------------------------------------------------------------------ 15 ReqWithSub

/// Required option in front of an optional command
#[derive(ArgParse)]
#[cli(help_path = "c20, req-with-sub")]
pub struct ReqWithSub {
    #[cli(short = "l", long = "level")]
    pub level: u8,
    #[cli(short = "q", long = "quiet")]
    pub quiet: bool,
    #[cli(subcommand)]
    pub leaf: Option<Leaf>,
}
pub static REQ_WITH_SUB: Spec = Spec {
    name: "ReqWithSub",
    opts: &[o(Some("l"), Some("level"), Kind::Req, Ty::U8), o(Some("q"), Some("quiet"), Kind::Flag, Ty::Str)],
    pos: &[],
    sub: Some(SubSpec { optional: true, cmds: &LEAF_CMDS }),
    help: help_of::<ReqWithSub>,
};
impl Shape for ReqWithSub {
    const SPEC: &'static Spec = &REQ_WITH_SUB;
    fn to_model(&self) -> Model {
        Model { opts: vec![one(num(self.level)), flag(self.quiet)], pos: vec![], sub: self.leaf.as_ref().map(leaf_model) }
    }
}

// ------------------------------------------------------------------------------------ dispatch

/// Result of one call of the derived parser, converted to owned data before the argument
/// storage is reused.
pub enum Outcome {
    Parsed(Model),
    Error {
        /// `Display` of the whole error (Err(()) when it reports a formatting error)
        display: Result<String, ()>,
        help: Result<String, ()>,
        cause: Result<String, ()>,
        cause_len: usize,
    },
}

fn run_shape<T: Shape>(args: &[&'static UnixStr]) -> Outcome {
    let mut it = args.iter().copied();
    match T::arg_parse(&mut it) {
        Ok(v) => Outcome::Parsed(v.to_model()),
        Err(e) => {
            let mut d = String::new();
            let display = write!(d, "{e}").map(|_| d).map_err(|_| ());
            let mut h = String::new();
            let help = write!(h, "{}", e.relevant_help).map(|_| h).map_err(|_| ());
            let mut c = String::new();
            let cause = write!(c, "{}", e.cause).map(|_| c).map_err(|_| ());
            Outcome::Error { display, help, cause, cause_len: e.cause.len() }
        }
    }
}

pub struct ShapeEntry {
    pub spec: &'static Spec,
    pub class: &'static str,
    pub parse: fn(&[&'static UnixStr]) -> Outcome,
}

// ------------------------------------------------------------------------------------ 16 Cased

/// Long names written with an underscore / an upper-case letter in the attribute: the declared
/// option (what the help text and every error message say) is the lower-case, dashed spelling;
/// the same holds for a short name written in upper case.
#[derive(ArgParse)]
#[cli(help_path = "c20, cased")]
pub struct Cased {
    #[cli(short = "r", long = "req_field")]
    pub req_field: i32,
    #[cli(short = "I", long = "Include")]
    pub include: Option<String>,
    #[cli(long = "dry_run")]
    pub dry_run: bool,
}
pub static CASED: Spec = Spec {
    name: "Cased",
    opts: &[o(Some("r"), Some("req-field"), Kind::Req, Ty::I32), o(Some("i"), Some("include"), Kind::Opt, Ty::String), o(None, Some("dry-run"), Kind::Flag, Ty::Str)],
    pos: &[],
    sub: None,
    help: help_of::<Cased>,
};
impl Shape for Cased {
    const SPEC: &'static Spec = &CASED;
    fn to_model(&self) -> Model {
        Model { opts: vec![one(num(self.req_field as i64)), opt(self.include.as_ref().map(|s| b(s.as_bytes()))), flag(self.dry_run)], pos: vec![], sub: None }
    }
}

// ------------------------------------------------------------------------------------ 17 Hosty

/// Declared options spelled like the help request: `-h` for a host (the mysql/psql convention) and a
/// repeatable `--help`. A declared option is part of the grammar and is read as that option; the other
/// help spelling keeps its built-in meaning only where it is not declared (here: none is left).
#[derive(ArgParse)]
#[cli(help_path = "c20, hosty")]
pub struct Hosty {
    #[cli(short = "h", long = "host")]
    pub host: String,
    #[cli(short = "p", long = "port")]
    pub port: Option<u16>,
    #[cli(long = "help")]
    pub topics: Vec<String>,
    #[cli(short = "v")]
    pub verbose: bool,
}
pub static HOSTY: Spec = Spec {
    name: "Hosty",
    opts: &[o(Some("h"), Some("host"), Kind::Req, Ty::String), o(Some("p"), Some("port"), Kind::Opt, Ty::U16), o(None, Some("help"), Kind::Many, Ty::String), o(Some("v"), None, Kind::Flag, Ty::Str)],
    pos: &[],
    sub: None,
    help: help_of::<Hosty>,
};
impl Shape for Hosty {
    const SPEC: &'static Spec = &HOSTY;
    fn to_model(&self) -> Model {
        Model { opts: vec![one(b(self.host.as_bytes())), opt(self.port.map(num)), self.topics.iter().map(|t| b(t.as_bytes())).collect(), flag(self.verbose)], pos: vec![], sub: None }
    }
}

// ------------------------------------------------------------------------------------ 19 SubMiddle

/// The command field declared in the middle: one option before it, two after it (field order is the author's
/// business; the grammar is the same as with the command field last)
#[derive(ArgParse)]
#[cli(help_path = "c20")]
pub struct SubMiddle {
    #[cli(short = "v")]
    pub v: bool,
    #[cli(subcommand)]
    pub cmd: Cmd,
    #[cli(long = "level")]
    pub level: Option<u8>,
    #[cli(short = "q", long = "quiet")]
    pub quiet: bool,
}
pub static SUB_MIDDLE: Spec = Spec {
    name: "SubMiddle",
    opts: &[o(Some("v"), None, Kind::Flag, Ty::Str), o(None, Some("level"), Kind::Opt, Ty::U8), o(Some("q"), Some("quiet"), Kind::Flag, Ty::Str)],
    pos: &[],
    sub: Some(SubSpec { optional: false, cmds: &CMD_CMDS }),
    help: help_of::<SubMiddle>,
};
impl Shape for SubMiddle {
    const SPEC: &'static Spec = &SUB_MIDDLE;
    fn to_model(&self) -> Model {
        Model { opts: vec![flag(self.v), opt(self.level.map(num)), flag(self.quiet)], pos: vec![], sub: Some(cmd_model(&self.cmd)) }
    }
}

// ------------------------------------------------------------------------------------ 18 Entry

include!("entry_struct.rs");
pub static ENTRY: Spec = Spec {
    name: "Entry",
    opts: &[o(Some("r"), Some("req"), Kind::Req, Ty::I64), o(None, Some("opt"), Kind::Opt, Ty::String), o(Some("f"), None, Kind::Flag, Ty::Str), o(None, Some("many"), Kind::Many, Ty::UStr)],
    pos: &[p("path", Ty::Str, false), p("cnt", Ty::U8, true)],
    sub: None,
    help: help_of::<Entry>,
};
impl Shape for Entry {
    const SPEC: &'static Spec = &ENTRY;
    fn to_model(&self) -> Model {
        Model {
            opts: vec![one(num(self.req)), opt(self.opt.as_ref().map(|s| b(s.as_bytes()))), flag(self.f), self.many.iter().map(|u| us(u)).collect()],
            pos: vec![Some(b(self.path.as_bytes())), self.cnt.map(num)],
            sub: None,
        }
    }
}

macro_rules! entry {
    ($t:ty, $class:literal) => {
        ShapeEntry { spec: <$t as Shape>::SPEC, class: $class, parse: run_shape::<$t> }
    };
}

pub static SHAPES: [ShapeEntry; 19] = [
    entry!(ReqOpt, "shape-ReqOpt"),
    entry!(Aliases, "shape-Aliases"),
    entry!(Flags, "shape-Flags"),
    entry!(OptOpt, "shape-OptOpt"),
    entry!(Rep, "shape-Rep"),
    entry!(Mixed, "shape-Mixed"),
    entry!(Pos1, "shape-Pos1"),
    entry!(Pos2, "shape-Pos2"),
    entry!(PosOpt, "shape-PosOpt"),
    entry!(Pos3, "shape-Pos3"),
    entry!(OptsAndPos, "shape-OptsAndPos"),
    entry!(Custom, "shape-Custom"),
    entry!(WithSub, "shape-WithSub"),
    entry!(WithOptSub, "shape-WithOptSub"),
    entry!(ReqWithSub, "shape-ReqWithSub"),
    entry!(Cased, "shape-Cased"),
    entry!(Hosty, "shape-Hosty"),
    entry!(Entry, "shape-Entry"),
    entry!(SubMiddle, "shape-SubMiddle"),
];

pub fn shape_by_name(name: &str) -> Option<&'static ShapeEntry> {
    SHAPES.iter().find(|s| s.spec.name == name)
}
