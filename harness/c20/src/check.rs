//! C20 — derived argument parsers accept exactly their declared grammar and never panic.
//!
//! Sub-checks
//! * `help-text`  every shape's help printer renders and names every declared word (enumerated)
//! * `rt`         round trip: value -> argument list (options permuted, aliases drawn) -> value
//! * `robust`     arbitrary argument lists: no panic, error renders and carries the help text of
//!                a struct level on the path, help request => empty cause, accept/reject (and the
//!                accepted value) agree with the reference recogniser on unambiguous lines
//! * `cause-buf`  error causes of every length around the 128-byte cause buffer (enumerated):
//!                a cause that fits is reported verbatim, one that does not never panics
pub mod entry;
pub mod gen;
pub mod model;
pub mod shapes;

use std::cell::RefCell;
use std::collections::BTreeMap;

use serde::{Deserialize, Serialize};
use tiny_std::UnixStr;
use vh::runner::{no_panic, CaseReport, CaseResult, Ctx};
use vh::util::{escape, Guarded};
use vh::{ensure, fail};

use gen::{RobCase, RtCase};
use model::{recognise, render, well_formed, Kind, Model, Spec};
use shapes::{shape_by_name, Outcome, ShapeEntry, SHAPES};

const OP: &str = "ArgParse::arg_parse";
/// text of the overflow fallback (used for class labels only, never as an oracle)
const FALLBACK: &str = "Cause unknown, too many characters to write into output buffer (BUG)";
const CAUSE_CAP: usize = 128;

// ------------------------------------------------------------------------------------ argument storage

/// Arguments live in buffers that END at a PROT_NONE page (terminator is the last mapped byte):
/// a read past an argument faults. Buffers are reused; everything derived from a parse is
/// converted to owned data (`Outcome`) before the next `load`.
pub struct ArgStore {
    bufs: Vec<Guarded>,
    caps: Vec<usize>,
}

const SLOT: usize = 12 * 1024;

impl ArgStore {
    pub fn new() -> Self {
        ArgStore { bufs: Vec::new(), caps: Vec::new() }
    }
    fn load(&mut self, args: &[Vec<u8>]) -> Vec<&'static UnixStr> {
        let mut out = Vec::with_capacity(args.len());
        for (i, a) in args.iter().enumerate() {
            let need = a.len() + 1;
            if i >= self.bufs.len() {
                let cap = need.max(SLOT);
                self.bufs.push(Guarded::at_end(cap));
                self.caps.push(cap.div_ceil(4096) * 4096);
            } else if need > self.caps[i] {
                self.bufs[i] = Guarded::at_end(need);
                self.caps[i] = need.div_ceil(4096) * 4096;
            }
            let mut z = Vec::with_capacity(need);
            z.extend_from_slice(a);
            z.push(0);
            self.bufs[i].reset_at_end(&z);
            // SAFETY: NUL-free contents + terminator; the reference is only used until the next load
            let s: &'static [u8] = unsafe { core::slice::from_raw_parts(self.bufs[i].as_ptr(), need) };
            out.push(unsafe { UnixStr::from_bytes_unchecked(s) });
        }
        out
    }
}

pub(crate) fn call(store: &RefCell<ArgStore>, entry: &ShapeEntry, args: &[Vec<u8>]) -> Result<Outcome, vh::runner::Failure> {
    let ptrs = store.borrow_mut().load(args);
    no_panic(OP, || (entry.parse)(&ptrs))
}

// ------------------------------------------------------------------------------------ helpers

pub struct Env {
    pub(crate) store: RefCell<ArgStore>,
    /// help text per struct level (name -> text), rendered once
    helps: BTreeMap<&'static str, String>,
}

pub(crate) fn show_args(args: &[Vec<u8>]) -> String {
    let mut s = String::from("[");
    for (i, a) in args.iter().enumerate() {
        if i > 0 {
            s.push_str(", ");
        }
        let e = escape(a);
        if e.len() > 80 {
            s.push_str(&format!("\"{}…\"({} bytes)", &e[..e.char_indices().nth(60).map(|x| x.0).unwrap_or(e.len())], a.len()));
        } else {
            s.push_str(&format!("\"{e}\""));
        }
    }
    s.push(']');
    s
}

/// first difference between two values, as a stable short description
fn diff(spec: &'static Spec, exp: &Model, got: &Model) -> String {
    for (i, o) in spec.opts.iter().enumerate() {
        if exp.opts.get(i) != got.opts.get(i) {
            let name = o.long.map(|l| format!("--{l}")).or(o.short.map(|s| format!("-{s}"))).unwrap_or_default();
            return format!("{} option {} ({:?})", spec.name, name, o.kind);
        }
    }
    for (i, p) in spec.pos.iter().enumerate() {
        if exp.pos.get(i) != got.pos.get(i) {
            return format!("{} positional {}", spec.name, p.name);
        }
    }
    match (&exp.sub, &got.sub) {
        (Some(a), Some(b)) if a.cmd == b.cmd => {
            if let (Some(ss), Some(ai), Some(bi)) = (&spec.sub, &a.inner, &b.inner) {
                if let Some(inner) = ss.cmds[a.cmd].inner {
                    if ai != bi {
                        return diff(inner, ai, bi);
                    }
                }
            }
            format!("{} (no difference)", spec.name)
        }
        (None, None) => format!("{} (no difference)", spec.name),
        _ => format!("{} subcommand", spec.name),
    }
}

fn has_leading_dash_value(m: &Model) -> bool {
    m.opts.iter().flatten().chain(m.pos.iter().flatten()).any(|v| v.0.first() == Some(&b'-')) || m.sub.as_ref().and_then(|s| s.inner.as_ref()).map(|i| has_leading_dash_value(i)).unwrap_or(false)
}

fn has_non_ascii_value(m: &Model) -> bool {
    m.opts.iter().flatten().chain(m.pos.iter().flatten()).any(|v| v.0.iter().any(|c| *c >= 0x80)) || m.sub.as_ref().and_then(|s| s.inner.as_ref()).map(|i| has_non_ascii_value(i)).unwrap_or(false)
}

fn depth(m: &Model) -> usize {
    match &m.sub {
        None => 0,
        Some(s) => 1 + s.inner.as_ref().map(|i| depth(i)).unwrap_or(0),
    }
}

// ------------------------------------------------------------------------------------ help-text

#[derive(Clone, Debug, Serialize, Deserialize)]
pub struct HelpCase {
    pub level: String,
}

fn all_levels() -> Vec<&'static Spec> {
    let mut v: Vec<&'static Spec> = Vec::new();
    for s in SHAPES.iter() {
        for l in s.spec.tree() {
            if !v.iter().any(|x| x.name == l.name) {
                v.push(l);
            }
        }
    }
    v
}

fn check_help(spec: &'static Spec) -> CaseResult {
    let mut rep = CaseReport::new();
    let text = no_panic("HelpPrinter::fmt", || (spec.help)())?;
    let Ok(text) = text else {
        fail!(format!("HelpPrinter::fmt|display-error|{}", spec.name), "help printer of {} reports a formatting error", spec.name);
    };
    ensure!(text.contains("Usage:"), format!("HelpPrinter::fmt|no-usage-line|{}", spec.name), "help of {} has no usage line: {:?}", spec.name, text);
    for o in spec.opts {
        for t in o.tokens() {
            let t = String::from_utf8(t).unwrap();
            // the token must appear as a word of its own (not only as a prefix of a longer one)
            let found = text.split(|c: char| c.is_whitespace() || c == ',').any(|w| w == t);
            ensure!(found, format!("HelpPrinter::fmt|option-not-listed|{}", spec.name), "help of {} does not list {}: {:?}", spec.name, t, text);
        }
    }
    let lower = text.to_lowercase();
    for p in spec.pos {
        ensure!(lower.contains(&p.name.to_lowercase()), format!("HelpPrinter::fmt|positional-not-listed|{}", spec.name), "help of {} does not name positional {}: {:?}", spec.name, p.name, text);
    }
    if let Some(ss) = &spec.sub {
        for c in ss.cmds {
            let found = text.split_whitespace().any(|w| w == c.name);
            ensure!(found, format!("HelpPrinter::fmt|command-not-listed|{}", spec.name), "help of {} does not list command {}: {:?}", spec.name, c.name, text);
        }
    }
    rep.nontrivial = true;
    rep.class_if(spec.sub.is_some(), "with-commands");
    rep.class_if(!spec.pos.is_empty(), "with-positionals");
    rep.class_if(!spec.opts.is_empty(), "with-options");
    Ok(rep)
}

// ------------------------------------------------------------------------------------ round trip

fn check_rt(ctx: &Ctx, env: &Env, case: &RtCase) -> CaseResult {
    let mut rep = CaseReport::new();
    let Some(entry) = shape_by_name(&case.shape) else {
        rep.class("out-of-domain");
        return Ok(rep);
    };
    let spec = entry.spec;
    if !well_formed(spec, &case.value) {
        rep.class("out-of-domain");
        return Ok(rep);
    }
    let r = render(spec, &case.value, &case.layout);
    // the reference must read the rendering back as the value, unambiguously; anything else is a
    // defect of the harness, never of the code under test
    let rec = recognise(spec, &r.args);
    if rec.ambiguous || rec.result.as_ref().ok() != Some(&case.value) {
        eprintln!("[C20:rt] harness self-check failed for {:?}: reference reads {:?} (ambiguous={})", case, rec.result, rec.ambiguous);
        ctx.inconclusive();
        rep.class("harness-selfcheck-failed");
        return Ok(rep);
    }
    match call(&env.store, entry, &r.args)? {
        Outcome::Parsed(got) => {
            ensure!(got == case.value, format!("{OP}|round-trip-mismatch|{}", diff(spec, &case.value, &got)), "{} parsed {} as {:?}, expected {:?}", spec.name, show_args(&r.args), got, case.value);
        }
        Outcome::Error { display, .. } => {
            fail!(format!("{OP}|valid-line-rejected|{}", spec.name), "{} rejected the rendering {} of {:?}: {:?}", spec.name, show_args(&r.args), case.value, display);
        }
    }
    rep.nontrivial_if(r.reordered);
    rep.class(entry.class);
    rep.class_if(r.reordered, "options-out-of-declaration-order");
    rep.class_if(r.used_short, "alias-short");
    rep.class_if(r.used_long, "alias-long");
    rep.class_if(has_leading_dash_value(&case.value), "value-with-leading-dash");
    rep.class_if(case.value.opts.iter().flatten().any(|v| model::is_help(&v.0)), "option-value-is-a-help-flag");
    rep.class_if(case.value.opts.iter().flatten().any(|v| spec.is_reserved(&v.0) && !model::is_help(&v.0)), "option-value-is-an-option-token");
    rep.class_if(has_non_ascii_value(&case.value), "value-non-ascii");
    rep.class_if(case.value.opts.iter().zip(spec.opts).any(|(v, o)| o.kind == Kind::Many && v.len() >= 2), "repeated-option-2+");
    rep.class_if(case.value.opts.iter().any(|v| v.len() >= 200), "option-repeated-200-times-or-more");
    rep.class_if(case.value.opts.iter().zip(spec.opts).any(|(v, o)| o.kind == Kind::Opt && v.is_empty()), "optional-option-absent");
    rep.class_if(spec.pos.iter().zip(&case.value.pos).any(|(p, v)| p.optional && v.is_none()), "optional-positional-absent");
    rep.class_if(spec.pos.iter().zip(&case.value.pos).any(|(p, v)| p.optional && v.is_some()), "optional-positional-present");
    rep.class_if(spec.sub.as_ref().map(|s| s.optional).unwrap_or(false) && case.value.sub.is_none(), "optional-subcommand-absent");
    rep.class_if(depth(&case.value) >= 2, "nested-subcommand");
    rep.class_if(r.args.iter().any(|a| a.len() > 1000), "long-value");
    rep.class_if(r.args.iter().any(|a| a.is_empty()), "empty-value");
    Ok(rep)
}

// ------------------------------------------------------------------------------------ robustness

pub fn check_rob(env: &Env, case: &RobCase) -> CaseResult {
    let mut rep = CaseReport::new();
    let Some(entry) = shape_by_name(&case.shape) else {
        rep.class("out-of-domain");
        return Ok(rep);
    };
    let spec = entry.spec;
    let args: Vec<Vec<u8>> = case.args.iter().map(|a| a.0.clone()).collect();
    if args.iter().any(|a| a.contains(&0)) {
        rep.class("out-of-domain"); // not representable as process arguments
        return Ok(rep);
    }
    let rec = recognise(spec, &args);
    let out = call(&env.store, entry, &args)?;
    let shown = || show_args(&args);
    match &out {
        Outcome::Parsed(got) => {
            if !rec.ambiguous {
                match &rec.result {
                    Ok(exp) => {
                        ensure!(got == exp, format!("{OP}|wrong-value|{}", diff(spec, exp, got)), "{} parsed {} as {:?}, the declared grammar reads {:?}", spec.name, shown(), got, exp);
                    }
                    Err(r) => {
                        fail!(format!("{OP}|accepted-outside-grammar|{}: {}", rec.chain[r.level].name, r.why), "{} accepted {} as {:?}; the declared grammar rejects it at level {} ({})", spec.name, shown(), got, rec.chain[r.level].name, r.why);
                    }
                }
            }
            rep.class("accepted");
        }
        Outcome::Error { display, help, cause, cause_len } => {
            let (Ok(display), Ok(help), Ok(cause)) = (display, help, cause) else {
                fail!(format!("ArgParseError::fmt|display-error|{}", spec.name), "the error of {} on {} does not render: display={:?} help={:?} cause={:?}", spec.name, shown(), display, help, cause);
            };
            ensure!(*cause_len <= CAUSE_CAP && cause.len() == *cause_len, format!("ArgParseError::fmt|cause-length|{}", spec.name), "{} on {}: cause buffer reports {} bytes, renders {} bytes", spec.name, shown(), cause_len, cause.len());
            ensure!(display.starts_with(help.as_str()) && display.len() == help.len() + cause.len() && display.ends_with(cause.as_str()), format!("ArgParseError::fmt|help-text-missing|{}", spec.name), "the error of {} on {} does not render as help text followed by cause: {:?}", spec.name, shown(), display);
            // the help text is that of a struct level of this shape ...
            let tree = spec.tree();
            ensure!(tree.iter().any(|l| env.helps.get(l.name) == Some(help)), format!("{OP}|foreign-help-text|{}", spec.name), "the error of {} on {} carries a help text of no level of the shape: {:?}", spec.name, shown(), help);
            if !rec.ambiguous {
                match &rec.result {
                    Ok(exp) => {
                        fail!(format!("{OP}|rejected-inside-grammar|{}", spec.name), "{} rejected {} ({:?}); the declared grammar reads it as {:?}", spec.name, shown(), cause, exp);
                    }
                    Err(r) => {
                        // ... namely of the level that detects the error (or, for a non-help error, of an
                        // outer level that lacks a required option: either may be reported first)
                        let mut ok_levels = vec![r.level];
                        if !r.help {
                            ok_levels.extend(rec.outer_missing.iter().copied());
                        }
                        let level_ok = ok_levels.iter().any(|l| env.helps.get(rec.chain[*l].name) == Some(help));
                        ensure!(level_ok, format!("{OP}|wrong-help-level|{}", rec.chain[r.level].name), "{} on {}: error ({}) belongs to level {}, the help text shown is {:?}", spec.name, shown(), r.why, rec.chain[r.level].name, help);
                        if r.help {
                            ensure!(*cause_len == 0, format!("{OP}|help-request-with-cause|{}", rec.chain[r.level].name), "{} on {}: help request answered with cause {:?}", spec.name, shown(), cause);
                            rep.class("help-request");
                            rep.class_if(r.level > 0, "help-request-in-subcommand");
                        }
                    }
                }
            }
            // arguments cannot contain NUL and no message does: a NUL in the text is buffer padding leaking out
            ensure!(!cause.contains('\0'), format!("ArgParseError::fmt|nul-in-cause|{}", spec.name), "{} on {}: the cause text contains NUL bytes: {:?}", spec.name, shown(), cause);
            let overflow = cause == FALLBACK;
            rep.nontrivial_if(overflow);
            rep.class("rejected");
            rep.class_if(overflow, "overflow-cause");
            rep.class_if(rec.saw_missing_value_at_end && !rec.ambiguous, "option-missing-value-at-end");
        }
    }
    rep.class(entry.class);
    rep.class_if(rec.ambiguous, "ambiguous-excluded-from-comparison");
    if !rec.ambiguous {
        match &rec.result {
            Ok(_) => rep.class("reference-accepts"),
            Err(r) => {
                rep.class("reference-rejects");
                rep.class(match r.why {
                    "option without value at end of line" => "why-missing-value",
                    "malformed option value" | "malformed positional value" => "why-malformed-value",
                    "neither option nor subcommand" | "unexpected argument" => "why-unknown-argument",
                    "required option missing" | "required positional missing" | "required subcommand missing" => "why-required-missing",
                    _ => "why-help",
                });
            }
        }
    }
    rep.class_if(args.iter().any(|a| std::str::from_utf8(a).is_err()), "non-utf8-arg");
    rep.class_if(args.iter().any(|a| a.is_empty()), "empty-arg");
    rep.class_if(args.iter().any(|a| a.len() >= 1024), "arg-1kB+");
    rep.class_if(args.iter().any(|a| model::is_help(a)), "help-token-present");
    rep.class_if(rec.chain.len() > 1, "entered-subcommand");
    Ok(rep)
}

// ------------------------------------------------------------------------------------ cause buffer

#[derive(Clone, Debug, Serialize, Deserialize)]
pub struct CauseCase {
    /// which error echoes the filler: "option-value" | "positional-value" | "unknown-argument"
    pub kind: String,
    /// filler bytes in the would-be cause
    pub n: usize,
    /// number of pieces the filler is written in (custom FromStr error only)
    pub k: usize,
}

fn cause_line(kind: &str, n: usize, k: usize) -> Option<(&'static ShapeEntry, Vec<Vec<u8>>)> {
    match kind {
        "option-value" => Some((shape_by_name("Custom")?, vec![b"--mode".to_vec(), format!("fail:{n}:{k}").into_bytes()])),
        "positional-value" => Some((shape_by_name("Custom")?, vec![b"-m".to_vec(), b"fast".to_vec(), format!("fail:{n}:{k}").into_bytes()])),
        "unknown-argument" => Some((shape_by_name("Flags")?, vec![vec![b'#'; n]])),
        _ => None,
    }
}

/// The cause text with filler length `n` is the cause text with filler length 0 plus `n` filler
/// bytes (the filler `#` is written by the harness' own `FromStr` error / is the echoed
/// argument). If that fits into the 128-byte buffer it must be reported verbatim; if not, any
/// cause of at most 128 bytes is fine, a panic is not.
fn check_cause(env: &Env, case: &CauseCase) -> CaseResult {
    let mut rep = CaseReport::new();
    let (Some((entry, base_args)), Some((_, args))) = (cause_line(&case.kind, 0, case.k), cause_line(&case.kind, case.n, case.k)) else {
        rep.class("out-of-domain");
        return Ok(rep);
    };
    let get = |a: &[Vec<u8>]| -> Result<(String, String, String, usize), vh::runner::Failure> {
        match call(&env.store, entry, a)? {
            Outcome::Parsed(m) => Err(vh::runner::Failure::new(format!("{OP}|accepted-outside-grammar|{}: cause-buf {}", entry.spec.name, case.kind), format!("{} accepted {} as {:?}", entry.spec.name, show_args(a), m))),
            Outcome::Error { display: Ok(d), help: Ok(h), cause: Ok(c), cause_len } => Ok((d, h, c, cause_len)),
            Outcome::Error { display, help, cause, .. } => Err(vh::runner::Failure::new(format!("ArgParseError::fmt|display-error|{}", entry.spec.name), format!("the error of {} on {} does not render: display={:?} help={:?} cause={:?}", entry.spec.name, show_args(a), display, help, cause))),
        }
    };
    let (_, _, base, base_len) = get(&base_args)?;
    if base_len + 1 > CAUSE_CAP || base == FALLBACK {
        // the fixed part alone does not leave room for any filler: nothing to compare
        rep.class("base-does-not-fit");
        return Ok(rep);
    }
    let (display, help, cause, cause_len) = get(&args)?;
    ensure!(cause_len <= CAUSE_CAP && cause.len() == cause_len, format!("ArgParseError::fmt|cause-length|{}", entry.spec.name), "{}: cause buffer reports {} bytes, renders {} bytes", show_args(&args), cause_len, cause.len());
    ensure!(display.len() == help.len() + cause.len() && display.starts_with(help.as_str()) && display.ends_with(cause.as_str()) && env.helps.get(entry.spec.name) == Some(&help), format!("ArgParseError::fmt|help-text-missing|{}", entry.spec.name), "the error on {} does not render as help text followed by cause: {:?}", show_args(&args), display);
    let want = base_len + case.n;
    let strip = |s: &str| s.replace('#', "");
    let fillers = |s: &str| s.bytes().filter(|c| *c == b'#').count();
    if want <= CAUSE_CAP {
        let verbatim = cause_len == want && strip(&cause) == strip(&base) && fillers(&cause) == fillers(&base) + case.n;
        let shape = if want == CAUSE_CAP { "cause fills the buffer exactly" } else { "cause shorter than the buffer" };
        ensure!(verbatim, format!("ArgParseError::new_cause|fitting-cause-not-verbatim|{}: {}", case.kind, shape), "{}: the cause would be {:?} plus {} filler bytes = {} bytes (buffer: {}), reported cause is {:?} ({} bytes)", show_args(&args), base, case.n, want, CAUSE_CAP, cause, cause_len);
        rep.class("fits");
        rep.class_if(want == CAUSE_CAP, "exact-fit-128");
    } else {
        rep.class("overflows");
        rep.class_if(want == CAUSE_CAP + 1, "overflow-by-one");
        rep.class_if(cause == FALLBACK, "fallback-text");
    }
    rep.nontrivial_if(want + 8 >= CAUSE_CAP && want <= CAUSE_CAP + 8);
    rep.class_if(case.k > 1, "multi-piece");
    Ok(rep)
}

fn cause_cases() -> Vec<CauseCase> {
    let mut v = Vec::new();
    for kind in ["option-value", "positional-value"] {
        for k in [1usize, 2, 3, 7] {
            for n in 0..=200usize {
                v.push(CauseCase { kind: kind.to_string(), n, k });
            }
            for n in [255usize, 256, 257, 1000, 4096, 10_000] {
                v.push(CauseCase { kind: kind.to_string(), n, k });
            }
        }
    }
    for n in (0..=200usize).chain([255, 256, 257, 1000, 4096, 10_000]) {
        v.push(CauseCase { kind: "unknown-argument".to_string(), n, k: 1 });
    }
    v
}

// ------------------------------------------------------------------------------------ run

impl Env {
    /// Help texts rendered once + the arena that keeps generated arguments alive ('static).
    pub fn new() -> Env {
        let mut helps = BTreeMap::new();
        for l in all_levels() {
            // a help printer that fails to render is reported by `help-text`; here it just has no text
            if let Ok(Ok(t)) = vh::runner::catch(|| (l.help)()) {
                helps.insert(l.name, t);
            }
        }
        Env { store: RefCell::new(ArgStore::new()), helps }
    }
}

impl Default for Env {
    fn default() -> Self {
        Self::new()
    }
}

/// Names of the derived shapes (for the fuzz target).
pub fn shape_names() -> Vec<&'static str> {
    SHAPES.iter().map(|s| s.spec.name).collect()
}

pub fn run(ctx: &Ctx) {
    let env = Env::new();

    if !ctx.is_replay() {
        // enumerations are small: every worker runs its share
        for (i, l) in all_levels().into_iter().enumerate() {
            if i % ctx.nworkers as usize != ctx.worker as usize {
                continue;
            }
            if !ctx.run_one("help-text", &HelpCase { level: l.name.to_string() }, || check_help(l)) {
                break;
            }
        }
        let cc = cause_cases();
        let total = cc.len();
        let mut ok = true;
        for (i, c) in cc.iter().enumerate() {
            if i % ctx.nworkers as usize != ctx.worker as usize {
                continue;
            }
            ok = ctx.run_one("cause-buf", c, || check_cause(&env, c));
            if !ok {
                break;
            }
        }
        if ok {
            ctx.note_exhaustive(format!("cause-buf: all {total} combinations of echoing error (custom FromStr error at an option, at a positional, in 1/2/3/7 pieces; unknown argument) x filler length 0..=200 and 255,256,257,1000,4096,10000"));
        }
    } else {
        if let Some(c) = ctx.replay_case::<HelpCase>("help-text") {
            if let Some(l) = all_levels().into_iter().find(|l| l.name == c.level) {
                ctx.run_one("help-text", &c, || check_help(l));
            }
        }
        if let Some(c) = ctx.replay_case::<CauseCase>("cause-buf") {
            ctx.run_one("cause-buf", &c, || check_cause(&env, &c));
        }
    }

    // the real entry point (no-libc probe), differential against the in-process parse of the same struct
    let entry_idx = SHAPES.iter().position(|s| s.spec.name == "Entry").expect("shape Entry");
    if let Some(c) = ctx.replay_case::<entry::EntryCase>("entry") {
        ctx.run_one("entry", &c, || entry::check_entry(&env, &c));
    } else if !ctx.is_replay() {
        for b in 0..entry::BUILDS.len() {
            if !std::path::Path::new(&entry::probe_path(b)).exists() {
                eprintln!("[C20] probe binary {} is missing (run lib/build_probes.py probe-cli dyn-debug pie-release)", entry::probe_path(b));
                std::process::exit(3);
            }
        }
        use proptest::prelude::*;
        let strat = (gen::rob_case_for(entry_idx), 0u8..2).prop_map(|(r, build)| entry::EntryCase { args: r.args, build });
        ctx.run_prop("entry", ctx.cases(1200, 40_000), strat, |c: &entry::EntryCase| entry::check_entry(&env, c));
    }
    ctx.run_prop("rt", ctx.cases(50_000, 1_000_000), gen::rt_case(), |c: &RtCase| check_rt(ctx, &env, c));
    ctx.run_prop("robust", ctx.cases(80_000, 1_800_000), gen::rob_case(), |c: &RobCase| check_rob(&env, c));
}
