//! C20 oracle as a library (used by the `c20` binary and by the libFuzzer target `cli_args`).
pub mod check;
