//! Harness binary for property C20. `c20 C20 [--seed N --worker I --nworkers N --tier T --out F --replay F]`.
fn main() {
    vh::runner::main_for(|ctx| c20::check::run(ctx));
}
