//! C12 — no operation leaks, double-closes or steals a descriptor, on success or failure.
//!
//! Each scenario is a closure over the public API. A dry run records its syscall sequence
//! through the `sc` interposer; then, for every index j of that sequence, call j is forced to
//! fail (without executing) with each errno of the call's plausible set. The descriptor table
//! (`/proc/self/fd`: number, link target, device/inode identity) is compared before the
//! operation, after it (must differ by exactly the descriptors owned by the returned value)
//! and after dropping the value (must be identical to before). The syscall log is checked for
//! closes of descriptors the operation did not create and for double closes.
use std::any::Any;
use std::collections::BTreeMap;
use std::os::unix::ffi::OsStrExt;

use rusl::platform::{Fd, OpenFlags};
use rusl::string::unix_str::UnixString;
use serde::{Deserialize, Serialize};
use tiny_std::fs::{Directory, File, OpenOptions};
use tiny_std::io::Read;
use tiny_std::net::{Ip, SocketAddress, TcpListener, TcpStream, TcpTryConnect, UnixListener, UnixStream};
use tiny_std::process::{Command, Stdio};
use tiny_std::unix::fd::AsRawFd;

use sc::verif::{Action, Rule};
use vh::runner::{catch, CaseReport, CaseResult, Ctx, Failure};
use vh::{ensure, fail};

#[derive(Debug, Clone, Serialize, Deserialize)]
pub struct FdCase {
    pub scenario: String,
    /// None = no fault; Some((j, errno)) = the j-th syscall of the operation fails with errno
    pub fault: Option<(u32, i32)>,
    /// child-side fault for spawn scenarios: (syscall name, nth, errno)
    pub child_fault: Option<(String, u32, i32)>,
    /// the faulted call is really executed and only its return value replaced (used for
    /// close(2): Linux releases the descriptor even when close reports EINTR/EIO)
    #[serde(default)]
    pub after_exec: bool,
    /// a second fault, at an index of the syscall sequence as it runs under the first fault
    /// (only generated when the first fault is one the operation recovers from)
    #[serde(default)]
    pub fault2: Option<(u32, i32)>,
}

/// What an operation hands to its caller: the raw descriptors it claims to own, and a value
/// whose drop must release them (for raw `Fd`s the harness closes them itself).
pub struct Held {
    pub owned: Vec<i32>,
    pub keep: Box<dyn Any>,
    pub close_raw: Vec<i32>,
}

impl Held {
    fn none() -> Held {
        Held { owned: vec![], keep: Box::new(()), close_raw: vec![] }
    }
    fn of<T: Any>(owned: Vec<i32>, v: T) -> Held {
        Held { owned, keep: Box::new(v), close_raw: vec![] }
    }
    fn raw(fds: Vec<i32>) -> Held {
        Held { owned: fds.clone(), keep: Box::new(()), close_raw: fds }
    }
}

pub struct Env {
    pub root: std::path::PathBuf,
    pub unix_listener_path: Vec<u8>,
    pub unix_listener_fd: i32,
    pub tcp_listener: std::net::TcpListener,
    pub tcp_port: u16,
    pub helper: Vec<u8>,
}

fn us(b: &[u8]) -> UnixString {
    UnixString::try_from_bytes(b).unwrap()
}

fn p(env: &Env, name: &str) -> UnixString {
    us(env.root.join(name).as_os_str().as_bytes())
}

type Op = fn(&Env) -> Held;

fn fd_of<T: AsRawFd>(t: &T) -> i32 {
    t.as_raw_fd().value()
}

macro_rules! ok_or_none {
    ($e:expr) => {
        match $e {
            Ok(v) => v,
            Err(_) => return Held::none(),
        }
    };
}

/// Every scenario, and every scenario that is not about spawning once more with the caller's descriptors 0 and 1
/// closed: whatever the operation opens first then gets the numbers 0 and 1 (a daemon's situation), which must
/// make no difference to what stays open afterwards.
pub fn scenarios() -> Vec<(&'static str, Op)> {
    static NAMES: std::sync::OnceLock<Vec<&'static str>> = std::sync::OnceLock::new();
    let base = base_scenarios();
    let names = NAMES.get_or_init(|| base.iter().map(|(n, _)| &*Box::leak(format!("{n} {CLOSED_STD}").into_boxed_str())).collect());
    let mut all = base.clone();
    for (k, (n, op)) in base.iter().enumerate() {
        if !n.starts_with("Command::spawn") && !n.contains(CLOSED_STD) {
            all.push((names[k], *op));
        }
    }
    all
}

fn base_scenarios() -> Vec<(&'static str, Op)> {
    vec![
        ("File::open existing", |e| {
            let f = ok_or_none!(File::open(&p(e, "file.txt")));
            Held::of(vec![fd_of(&f)], f)
        }),
        ("File::open missing", |e| {
            let f = ok_or_none!(File::open(&p(e, "missing.txt")));
            Held::of(vec![fd_of(&f)], f)
        }),
        ("OpenOptions create+write+truncate", |e| {
            let f = ok_or_none!(OpenOptions::new().write(true).create(true).truncate(true).open(&p(e, "new.txt")));
            Held::of(vec![fd_of(&f)], f)
        }),
        ("OpenOptions append+read", |e| {
            let f = ok_or_none!(OpenOptions::new().append(true).read(true).open(&p(e, "file.txt")));
            Held::of(vec![fd_of(&f)], f)
        }),
        ("OpenOptions create_new on existing", |e| {
            let f = ok_or_none!(OpenOptions::new().write(true).create_new(true).open(&p(e, "file.txt")));
            Held::of(vec![fd_of(&f)], f)
        }),
        ("OpenOptions bad (no access mode)", |e| {
            let f = ok_or_none!(OpenOptions::new().open(&p(e, "file.txt")));
            Held::of(vec![fd_of(&f)], f)
        }),
        ("fs::read", |e| {
            let _ = tiny_std::fs::read(&p(e, "file.txt"));
            Held::none()
        }),
        ("fs::read_to_string", |e| {
            let _ = tiny_std::fs::read_to_string(&p(e, "file.txt"));
            Held::none()
        }),
        ("fs::read_to_string invalid utf8", |e| {
            let _ = tiny_std::fs::read_to_string(&p(e, "binary.bin"));
            Held::none()
        }),
        ("fs::write", |e| {
            let _ = tiny_std::fs::write(&p(e, "written.txt"), b"hello world");
            Held::none()
        }),
        ("fs::copy_file", |e| {
            let f = ok_or_none!(tiny_std::fs::copy_file(&p(e, "big.bin"), &p(e, "copy.bin")));
            Held::of(vec![fd_of(&f)], f)
        }),
        ("fs::copy_file missing source", |e| {
            let f = ok_or_none!(tiny_std::fs::copy_file(&p(e, "missing.txt"), &p(e, "copy2.bin")));
            Held::of(vec![fd_of(&f)], f)
        }),
        ("fs::copy_file into missing dir", |e| {
            let f = ok_or_none!(tiny_std::fs::copy_file(&p(e, "file.txt"), &p(e, "nodir/copy.bin")));
            Held::of(vec![fd_of(&f)], f)
        }),
        ("fs::metadata+exists", |e| {
            let _ = tiny_std::fs::metadata(&p(e, "file.txt"));
            let _ = tiny_std::fs::exists(&p(e, "missing.txt"));
            Held::none()
        }),
        ("Directory::open + iterate", |e| {
            let d = ok_or_none!(Directory::open(&p(e, "dir")));
            for ent in d.read() {
                if ent.is_err() {
                    break;
                }
            }
            Held::of(vec![fd_of_dir(&d)], d)
        }),
        ("DirEntry::open_file/open_dir", |e| {
            let d = ok_or_none!(Directory::open(&p(e, "dir")));
            let mut owned = vec![fd_of_dir(&d)];
            let mut keep: Vec<Box<dyn Any>> = Vec::new();
            for ent in d.read() {
                let Ok(ent) = ent else { break };
                if ent.is_relative_reference() {
                    continue;
                }
                if let Ok(f) = ent.open_file() {
                    owned.push(fd_of(&f));
                    keep.push(Box::new(f));
                }
                if let Ok(sub) = ent.open_dir() {
                    owned.push(fd_of_dir(&sub));
                    keep.push(Box::new(sub));
                }
            }
            Held::of(owned, (keep, d))
        }),
        // arguments of the wrong kind: a regular file where a directory is expected and vice versa,
        // a regular file where a socket is expected - every one must fail (or work) without leaving anything open
        ("wrong kind: Directory::open / remove_dir_all on a regular file", |e| {
            let mut owned = Vec::new();
            let mut keep: Vec<Box<dyn Any>> = Vec::new();
            if let Ok(d) = Directory::open(&p(e, "file.txt")) {
                owned.push(fd_of_dir(&d));
                keep.push(Box::new(d));
            }
            let _ = tiny_std::fs::remove_dir_all(&p(e, "file.txt"));
            let _ = tiny_std::fs::remove_dir(&p(e, "file.txt"));
            Held::of(owned, keep)
        }),
        ("wrong kind: File::open / fs::read / read_to_string / copy_file on a directory", |e| {
            let mut owned = Vec::new();
            let mut keep: Vec<Box<dyn Any>> = Vec::new();
            if let Ok(mut f) = File::open(&p(e, "dir")) {
                let mut b = [0u8; 8];
                let _ = f.read(&mut b);
                owned.push(fd_of(&f));
                keep.push(Box::new(f));
            }
            let _ = tiny_std::fs::read(&p(e, "dir"));
            let _ = tiny_std::fs::read_to_string(&p(e, "dir"));
            if let Ok(f) = tiny_std::fs::copy_file(&p(e, "dir"), &p(e, "copy2.bin")) {
                owned.push(fd_of(&f));
                keep.push(Box::new(f));
            }
            if let Ok(f) = tiny_std::fs::copy_file(&p(e, "file.txt"), &p(e, "dir")) {
                owned.push(fd_of(&f));
                keep.push(Box::new(f));
            }
            let _ = tiny_std::fs::write(&p(e, "dir"), b"x");
            Held::of(owned, keep)
        }),
        ("wrong kind: UnixStream::connect / try_connect / UnixListener::bind on a regular file", |e| {
            let mut owned = Vec::new();
            let mut keep: Vec<Box<dyn Any>> = Vec::new();
            if let Ok(s) = UnixStream::connect(&p(e, "file.txt")) {
                owned.push(fd_of(&s));
                keep.push(Box::new(s));
            }
            if let Ok(Some(s)) = UnixStream::try_connect(&p(e, "file.txt")) {
                owned.push(fd_of(&s));
                keep.push(Box::new(s));
            }
            if let Ok(l) = UnixListener::bind(&p(e, "file.txt")) {
                owned.push(fd_of_ul(&l));
                keep.push(Box::new(l));
            }
            Held::of(owned, keep)
        }),
        ("fs::remove_dir_all", |e| {
            let _ = tiny_std::fs::remove_dir_all(&p(e, "victim"));
            Held::none()
        }),
        ("fs::create_dir_all", |e| {
            let _ = tiny_std::fs::create_dir_all(&p(e, "a/b/c/d"));
            Held::none()
        }),
        ("UnixStream::connect", |e| {
            let s = ok_or_none!(UnixStream::connect(&us(&e.unix_listener_path)));
            Held::of(vec![fd_of(&s)], s)
        }),
        ("UnixStream::connect missing path", |e| {
            let s = ok_or_none!(UnixStream::connect(&p(e, "no.sock")));
            Held::of(vec![fd_of(&s)], s)
        }),
        ("UnixStream::connect over-long path", |e| {
            let long = e.root.join("x".repeat(150));
            let s = ok_or_none!(UnixStream::connect(&us(long.as_os_str().as_bytes())));
            Held::of(vec![fd_of(&s)], s)
        }),
        ("UnixStream::try_connect", |e| {
            match ok_or_none!(UnixStream::try_connect(&us(&e.unix_listener_path))) {
                Some(s) => Held::of(vec![fd_of(&s)], s),
                None => Held::none(),
            }
        }),
        ("UnixStream::try_connect over-long path", |e| {
            let long = e.root.join("y".repeat(150));
            match ok_or_none!(UnixStream::try_connect(&us(long.as_os_str().as_bytes()))) {
                Some(s) => Held::of(vec![fd_of(&s)], s),
                None => Held::none(),
            }
        }),
        ("UnixListener::bind", |e| {
            let l = ok_or_none!(UnixListener::bind(&p(e, "bound.sock")));
            Held::of(vec![fd_of_ul(&l)], l)
        }),
        ("UnixListener::bind over-long path", |e| {
            let long = e.root.join("z".repeat(150));
            let l = ok_or_none!(UnixListener::bind(&us(long.as_os_str().as_bytes())));
            Held::of(vec![fd_of_ul(&l)], l)
        }),
        ("UnixListener::bind non-ascii path", |e| {
            let l = ok_or_none!(UnixListener::bind(&us(e.root.join("s\u{e9}\u{20ac}.sock").as_os_str().as_bytes())));
            Held::of(vec![fd_of_ul(&l)], l)
        }),
        ("UnixListener accept variants", |e| {
            let mut l = ok_or_none!(UnixListener::bind(&p(e, "acc.sock")));
            let mut owned = vec![fd_of_ul(&l)];
            let mut keep: Vec<Box<dyn Any>> = Vec::new();
            // two pending connections made by the harness through std
            let c1 = std::os::unix::net::UnixStream::connect(e.root.join("acc.sock"));
            let c2 = std::os::unix::net::UnixStream::connect(e.root.join("acc.sock"));
            if let Ok(s) = l.accept() {
                owned.push(fd_of(&s));
                keep.push(Box::new(s));
            }
            if let Ok(Some(s)) = l.try_accept() {
                owned.push(fd_of(&s));
                keep.push(Box::new(s));
            }
            // nothing pending: try_accept -> None, timed accept -> Timeout
            let _ = l.try_accept();
            let _ = l.accept_with_timeout(core::time::Duration::from_millis(2));
            drop((c1, c2));
            Held::of(owned, (keep, l))
        }),
        ("UnixListener accept of clients bound to names of their own (short, 107 and 108 bytes)", |e| {
            // the peer's address comes back from accept4: a client bound to a path that fills sun_path to its last byte
            // (108 bytes, no terminator) makes the kernel report a length beyond the structure
            let mut l = ok_or_none!(UnixListener::bind(&p(e, "accb.sock")));
            let mut owned = vec![fd_of_ul(&l)];
            let mut keep: Vec<Box<dyn Any>> = Vec::new();
            let target = e.root.join("accb.sock");
            let mut clients = Vec::new();
            for (k, total) in [(0usize, 0usize), (1, 107), (2, 108), (3, 108), (4, 107)] {
                let base = format!("{}/c{k}", e.root.display());
                let mut name = base.into_bytes();
                while name.len() < total {
                    name.push(b'n');
                }
                if name.len() > 108 {
                    continue;
                }
                unsafe {
                    let fd = libc::socket(libc::AF_UNIX, libc::SOCK_STREAM | libc::SOCK_CLOEXEC, 0);
                    if fd < 0 {
                        continue;
                    }
                    let mk = |b: &[u8]| {
                        let mut sa: libc::sockaddr_un = core::mem::zeroed();
                        sa.sun_family = libc::AF_UNIX as u16;
                        for (i, &c) in b.iter().enumerate() {
                            sa.sun_path[i] = c as libc::c_char;
                        }
                        (sa, (2 + b.len() + usize::from(b.len() < 108)) as u32)
                    };
                    let (own, own_len) = mk(&name);
                    let t = target.as_os_str().as_encoded_bytes();
                    let (to, to_len) = mk(t);
                    if libc::bind(fd, &own as *const _ as *const libc::sockaddr, own_len) != 0 || libc::connect(fd, &to as *const _ as *const libc::sockaddr, to_len) != 0 {
                        libc::close(fd);
                        continue;
                    }
                    clients.push(fd);
                }
                let r = match k % 3 {
                    0 => l.accept().ok(),
                    1 => l.try_accept().ok().flatten(),
                    _ => l.accept_with_timeout(core::time::Duration::from_millis(50)).ok(),
                };
                if let Some(s) = r {
                    owned.push(fd_of(&s));
                    keep.push(Box::new(s));
                }
            }
            for fd in clients {
                unsafe { libc::close(fd) };
            }
            Held::of(owned, (keep, l))
        }),
        ("recvmsg with SCM_RIGHTS + control_messages (control buffers of CMSG_SPACE, CMSG_LEN and truncating sizes; with and without a credentials message in front)", |e| {
            // the descriptors recvmsg installs are handed to the caller through control_messages(): whatever the
            // kernel installed and the iterator does not report can never be closed
            use rusl::platform::{ControlMessageSend, IoSlice, IoSliceMut, MsgHdrBorrow};
            let mut reported: Vec<i32> = Vec::new();
            // (descriptors sent, control buffer bytes, receiver has SO_PASSCRED set: the kernel puts a credentials
            // message of 32 bytes in front of the rights message)
            for (nfds, clen, passcred) in [(1usize, 24usize, false), (1, 20, false), (3, 32, false), (3, 28, false), (2, 20, false), (5, 28, false), (5, 31, false), (2, 64, false), (0, 24, false), (1, 56, true), (3, 64, true), (2, 52, true), (4, 120, true), (0, 56, true)] {
                let mut sv = [0i32; 2];
                if unsafe { libc::socketpair(libc::AF_UNIX, libc::SOCK_STREAM | libc::SOCK_CLOEXEC, 0, sv.as_mut_ptr()) } != 0 {
                    continue;
                }
                if passcred {
                    let one: libc::c_int = 1;
                    unsafe { libc::setsockopt(sv[1], libc::SOL_SOCKET, libc::SO_PASSCRED, (&one as *const libc::c_int).cast(), 4) };
                }
                let files: Vec<std::fs::File> = (0..nfds).filter_map(|_| std::fs::File::open(e.root.join("file.txt")).ok()).collect();
                let fds: Vec<Fd> = files.iter().map(|f| Fd::try_new(std::os::fd::AsRawFd::as_raw_fd(f)).unwrap()).collect();
                let data = [7u8; 3];
                let io_out = [IoSlice::new(&data)];
                let snd = MsgHdrBorrow::create_send(None, &io_out, if nfds > 0 { Some(ControlMessageSend::ScmRights(&fds)) } else { None });
                let sent = rusl::network::sendmsg(Fd::try_new(sv[0]).unwrap(), &snd, 0);
                if sent.is_ok() {
                    let mut ctrl = vec![0u64; 16];
                    let ctrl_bytes: &mut [u8] = unsafe { core::slice::from_raw_parts_mut(ctrl.as_mut_ptr().cast::<u8>(), clen) };
                    let mut space = [0u8; 16];
                    let mut io_in = [IoSliceMut::new(&mut space)];
                    let mut hdr = MsgHdrBorrow::create_recv(&mut io_in, Some(ctrl_bytes));
                    if rusl::network::recvmsg(Fd::try_new(sv[1]).unwrap(), &mut hdr, libc::MSG_CMSG_CLOEXEC).is_ok() {
                        for m in hdr.control_messages() {
                            match m {
                                ControlMessageSend::ScmRights(got) => reported.extend(got.iter().map(|f| f.value())),
                            }
                            if reported.len() > 64 {
                                break;
                            }
                        }
                    }
                }
                drop(files);
                unsafe {
                    libc::close(sv[0]);
                    libc::close(sv[1]);
                }
            }
            Held::raw(reported)
        }),
        ("TcpListener::bind + accept variants", |_e| {
            let mut l = ok_or_none!(TcpListener::bind(&SocketAddress::new(Ip::V4([127, 0, 0, 1]), 0)));
            let mut owned = vec![fd_of_tl(&l)];
            let mut keep: Vec<Box<dyn Any>> = Vec::new();
            if let Ok(addr) = l.local_addr() {
                let port = port_of(&addr);
                let c1 = std::net::TcpStream::connect(("127.0.0.1", port));
                let c2 = std::net::TcpStream::connect(("127.0.0.1", port));
                if let Ok(s) = l.accept() {
                    owned.push(fd_of(&s));
                    keep.push(Box::new(s));
                }
                if let Ok(Some(s)) = l.try_accept() {
                    owned.push(fd_of(&s));
                    keep.push(Box::new(s));
                }
                let _ = l.try_accept();
                let _ = l.accept_with_timeout(core::time::Duration::from_millis(2));
                drop((c1, c2));
            }
            Held::of(owned, (keep, l))
        }),
        ("TcpStream::connect", |e| {
            let s = ok_or_none!(TcpStream::connect(&SocketAddress::new(Ip::V4([127, 0, 0, 1]), e.tcp_port)));
            Held::of(vec![fd_of(&s)], s)
        }),
        ("TcpStream::connect refused", |_e| {
            let s = ok_or_none!(TcpStream::connect(&SocketAddress::new(Ip::V4([127, 0, 0, 1]), 1)));
            Held::of(vec![fd_of(&s)], s)
        }),
        ("TcpStream::connect_with_timeout", |e| {
            let s = ok_or_none!(TcpStream::connect_with_timeout(&SocketAddress::new(Ip::V4([127, 0, 0, 1]), e.tcp_port), core::time::Duration::from_millis(50)));
            Held::of(vec![fd_of(&s)], s)
        }),
        // arguments that cannot be represented (a time limit beyond i64::MAX seconds, the usual
        // "wait for ever" spelled Duration::MAX): refused or honoured, but nothing may stay open
        ("TcpStream::connect_with_timeout unrepresentable limit", |e| {
            let s = ok_or_none!(TcpStream::connect_with_timeout(&SocketAddress::new(Ip::V4([127, 0, 0, 1]), e.tcp_port), core::time::Duration::MAX));
            Held::of(vec![fd_of(&s)], s)
        }),
        ("accept_with_timeout / read_with_timeout unrepresentable limit", |e| {
            let mut owned = Vec::new();
            let mut keep: Vec<Box<dyn Any>> = Vec::new();
            if let Ok(mut l) = UnixListener::bind(&p(e, "acc2.sock")) {
                owned.push(fd_of_ul(&l));
                let c1 = std::os::unix::net::UnixStream::connect(e.root.join("acc2.sock"));
                if let Ok(s) = l.accept_with_timeout(core::time::Duration::MAX) {
                    owned.push(fd_of(&s));
                    keep.push(Box::new(s));
                }
                // the harness's own end is closed before the table is compared
                drop(c1);
                keep.push(Box::new(l));
            }
            if let Ok(mut l) = TcpListener::bind(&SocketAddress::new(Ip::V4([127, 0, 0, 1]), 0)) {
                owned.push(fd_of_tl(&l));
                if let Ok(addr) = l.local_addr() {
                    let c1 = std::net::TcpStream::connect(("127.0.0.1", port_of(&addr)));
                    if let Ok(mut s) = l.accept_with_timeout(core::time::Duration::new(u64::MAX, 5)) {
                        owned.push(fd_of(&s));
                        if let Ok(c) = &c1 {
                            use std::io::Write as _;
                            let _ = (&*c).write_all(b"x");
                        }
                        let mut b = [0u8; 4];
                        let _ = s.read_with_timeout(&mut b, core::time::Duration::MAX);
                        keep.push(Box::new(s));
                    }
                    drop(c1);
                }
                keep.push(Box::new(l));
            }
            Held::of(owned, keep)
        }),
        ("TcpStream::try_connect + progress", |e| {
            match ok_or_none!(TcpStream::try_connect(&SocketAddress::new(Ip::V4([127, 0, 0, 1]), e.tcp_port))) {
                TcpTryConnect::Connected(s) => Held::of(vec![fd_of(&s)], s),
                TcpTryConnect::InProgress(p) => match p.try_connect() {
                    Ok(TcpTryConnect::Connected(s)) => Held::of(vec![fd_of(&s)], s),
                    Ok(TcpTryConnect::InProgress(p2)) => match p2.connect_blocking() {
                        Ok(s) => Held::of(vec![fd_of(&s)], s),
                        Err(_) => Held::none(),
                    },
                    Err(_) => Held::none(),
                },
            }
        }),
        ("Command::spawn inherit + wait", |e| spawn_scn(e, [0, 0, 0])),
        ("Command::spawn null,pipe,pipe + wait", |e| spawn_scn(e, [2, 3, 3])),
        // daemon-style caller: its own descriptors 0 and 1 are closed while the operation runs, so
        // the operation's pipes land on the standard numbers (see CLOSED_STD in run_case)
        ("Command::spawn null,pipe,pipe + wait [caller's 0 and 1 closed]", |e| spawn_scn(e, [2, 3, 3])),
        ("Command::spawn inherit + wait [caller's 0 and 1 closed]", |e| spawn_scn(e, [0, 0, 0])),
        ("Command::spawn pipe,null,rawfd + wait", |e| spawn_scn(e, [3, 2, 4])),
        ("Command::spawn missing binary", |e| {
            let bin = p(e, "no-such-bin");
            let mut c = ok_or_none!(Command::new(&bin));
            c.stdout(Stdio::MakePipe);
            match c.spawn() {
                Ok(mut ch) => {
                    let _ = ch.wait();
                    let owned = child_fds(&ch);
                    Held::of(owned, ch)
                }
                Err(_) => Held::none(),
            }
        }),
        ("EpollDriver::create", |_e| {
            let d = ok_or_none!(tiny_std::linux::epoll::EpollDriver::create(true));
            // the epoll fd is private: identify it as "the one new descriptor"
            Held::of(vec![-1], d)
        }),
        ("EpollDriver register + modify + wait + unregister", |e| {
            use rusl::platform::{EpollEvent, EpollEventMask};
            use tiny_std::linux::epoll::EpollTimeout;
            let d = ok_or_none!(tiny_std::linux::epoll::EpollDriver::create(false));
            // watching, re-arming and forgetting a descriptor of the caller's changes nothing in the table,
            // whichever of the calls fails
            let fd = rusl::platform::NonNegativeI32::try_new(e.unix_listener_fd).unwrap();
            let _ = d.register(fd, 7, EpollEventMask::EPOLLIN);
            let _ = d.modify(fd, 9, EpollEventMask::EPOLLIN | EpollEventMask::EPOLLOUT);
            let mut evs = [EpollEvent::new(0, EpollEventMask::empty()); 4];
            let _ = d.wait(&mut evs, EpollTimeout::NoWait);
            let _ = d.wait(&mut evs, EpollTimeout::WaitMillis(u32::MAX));
            let _ = d.unregister(fd);
            let _ = d.unregister(fd);
            Held::of(vec![-1], d)
        }),
        ("getpwuid_r", |_e| {
            let mut buf = [0u8; 256];
            let _ = tiny_std::unix::passwd::getpw_r::getpwuid_r(0, &mut buf);
            let mut small = [0u8; 24];
            let _ = tiny_std::unix::passwd::getpw_r::getpwuid_r(65_534, &mut small);
            // the uid of the file's last entry with a buffer of a few lines: the file is read refill by refill
            // (an ABSENT uid is not asked for with such a buffer: at the end of the file the refill loop keeps
            // finding the stale line ends of its own buffer and never returns - noted in DESIGN.md, outside C12)
            if let Some(last_uid) = std::fs::read_to_string("/etc/passwd").ok().and_then(|t| t.lines().filter(|l| l.matches(':').count() >= 6).last().and_then(|l| l.split(':').nth(2).and_then(|u| u.parse::<u32>().ok()))) {
                let mut mid = [0u8; 300];
                let _ = tiny_std::unix::passwd::getpw_r::getpwuid_r(last_uid, &mut mid);
            }
            Held::none()
        }),
        ("openpty", |_e| {
            let h = ok_or_none!(tiny_std::unix::misc::openpty::openpty(None, None, None));
            Held::raw(vec![h.master.value(), h.slave.value()])
        }),
        // the caller names the slave: a path that is not a terminal (the window-size ioctl fails by itself) ...
        ("openpty named slave /dev/null + winsize", |_e| {
            let ws = rusl::platform::WindowSize::new(24, 80, 0, 0);
            let h = ok_or_none!(tiny_std::unix::misc::openpty::openpty(Some(&us(b"/dev/null")), None, Some(&ws)));
            Held::raw(vec![h.master.value(), h.slave.value()])
        }),
        // ... and the slave of another pty (opened by the harness through libc), with terminal settings and window size
        ("openpty named slave pts + termios + winsize", |_e| {
            let (m, path) = unsafe {
                let m = libc::posix_openpt(libc::O_RDWR | libc::O_NOCTTY | libc::O_CLOEXEC);
                if m < 0 || libc::grantpt(m) != 0 || libc::unlockpt(m) != 0 {
                    if m >= 0 {
                        libc::close(m);
                    }
                    return Held::none();
                }
                let mut buf = [0 as libc::c_char; 64];
                if libc::ptsname_r(m, buf.as_mut_ptr(), buf.len()) != 0 {
                    libc::close(m);
                    return Held::none();
                }
                (m, std::ffi::CStr::from_ptr(buf.as_ptr()).to_bytes().to_vec())
            };
            let mut tio: libc::termios2 = unsafe { std::mem::zeroed() };
            let got = unsafe { libc::ioctl(m, libc::TCGETS2, &mut tio as *mut libc::termios2) };
            let ws = rusl::platform::WindowSize::new(30, 100, 0, 0);
            let r = if got == 0 {
                // same layout as the kernel's termios2, which rusl's Termios wraps
                let t: rusl::platform::Termios = unsafe { std::mem::transmute_copy(&tio) };
                tiny_std::unix::misc::openpty::openpty(Some(&us(&path)), Some(&t), Some(&ws))
            } else {
                tiny_std::unix::misc::openpty::openpty(Some(&us(&path)), None, Some(&ws))
            };
            unsafe { libc::close(m) };
            let h = ok_or_none!(r);
            Held::raw(vec![h.master.value(), h.slave.value()])
        }),
        ("system_random", |_e| {
            let mut b = [0u8; 16];
            let _ = tiny_std::unix::random::system_random(&mut b);
            Held::none()
        }),
        ("setup_io_uring + drop", |_e| {
            let r = ok_or_none!(rusl::io_uring::setup_io_uring(4, rusl::platform::IoUringParamFlags::empty(), 0, 0));
            let fd = r.fd.value();
            Held::of(vec![fd], r)
        }),
        ("setup_io_uring beyond the kernel's maximum (with and without CLAMP) + drop", |_e| {
            // more entries than the kernel allows: refused without IORING_SETUP_CLAMP, cut down to the maximum with it
            let _ = rusl::io_uring::setup_io_uring(40_000, rusl::platform::IoUringParamFlags::empty(), 0, 0);
            let r = ok_or_none!(rusl::io_uring::setup_io_uring(40_000, rusl::platform::IoUringParamFlags::IORING_SETUP_CLAMP, 0, 0));
            let fd = r.fd.value();
            Held::of(vec![fd], r)
        }),
        ("pipe/pipe2", |_e| {
            let a = ok_or_none!(rusl::unistd::pipe());
            let b = match rusl::unistd::pipe2(OpenFlags::O_CLOEXEC) {
                Ok(b) => b,
                Err(_) => return Held::raw(vec![a.in_pipe.value(), a.out_pipe.value()]),
            };
            Held::raw(vec![a.in_pipe.value(), a.out_pipe.value(), b.in_pipe.value(), b.out_pipe.value()])
        }),
        ("host_name", |_e| {
            let _ = tiny_std::unix::host_name::host_name();
            Held::none()
        }),
    ]
}

fn fd_of_dir(d: &Directory) -> i32 {
    // Directory has no AsRawFd: it is a transparent wrapper around its OwnedFd
    unsafe { *(d as *const Directory as *const i32) }
}
fn fd_of_ul(l: &UnixListener) -> i32 {
    unsafe { *(l as *const UnixListener as *const i32) }
}
fn fd_of_tl(l: &TcpListener) -> i32 {
    unsafe { *(l as *const TcpListener as *const i32) }
}
fn port_of(a: &SocketAddress) -> u16 {
    // SocketAddress { ip: Ip (V4([u8;4])), port: u16 } has no getter: parse its Debug output
    let s = format!("{a:?}");
    s.rsplit("port: ").next().and_then(|t| t.trim_end_matches([' ', '}']).parse().ok()).unwrap_or(0)
}

fn child_fds(ch: &tiny_std::process::Child) -> Vec<i32> {
    let mut v = Vec::new();
    if let Some(p) = &ch.stdin {
        v.push(p.borrow_fd().as_raw_fd().value());
    }
    if let Some(p) = &ch.stdout {
        v.push(p.borrow_fd().as_raw_fd().value());
    }
    if let Some(p) = &ch.stderr {
        v.push(p.borrow_fd().as_raw_fd().value());
    }
    v
}

thread_local! {
    /// what a scenario found wrong by itself (beyond the descriptor table of the calling process)
    static COMPLAINT: std::cell::RefCell<Option<String>> = const { std::cell::RefCell::new(None) };
}

/// descriptors above 2 of this process that an exec keeps (the harness's own, opened without close-on-exec)
fn inheritable_fds() -> Vec<i64> {
    snapshot().keys().copied().filter(|&fd| fd > 2 && unsafe { libc::fcntl(fd, libc::F_GETFD) } & libc::FD_CLOEXEC == 0).map(i64::from).collect()
}

fn spawn_scn(e: &Env, stdio: [u8; 3]) -> Held {
    let bin = us(&e.helper);
    let dump = p(e, "dump.json");
    let dump_path = e.root.join("dump.json");
    let _ = std::fs::remove_file(&dump_path);
    let inheritable = inheritable_fds();
    let mut c = ok_or_none!(Command::new(&bin));
    let zero = us(b"0");
    let flags = us(if stdio[0] >= 2 { b"-i" } else { b"-" });
    c.arg(&dump).arg(&zero).arg(&flags);
    let mut rawfd = None;
    let mk = |m: u8, rawfd: &mut Option<i32>| match m {
        2 => Some(Stdio::Null),
        3 => Some(Stdio::MakePipe),
        4 => {
            let path = std::ffi::CString::new(e.root.join("rawout").as_os_str().as_bytes()).unwrap();
            let fd = unsafe { libc::open(path.as_ptr(), libc::O_CREAT | libc::O_RDWR | libc::O_CLOEXEC, 0o644) };
            *rawfd = Some(fd);
            Some(Stdio::RawFd(Fd::try_new(fd).unwrap()))
        }
        _ => None,
    };
    if let Some(s) = mk(stdio[0], &mut rawfd) {
        c.stdin(s);
    }
    if let Some(s) = mk(stdio[1], &mut rawfd) {
        c.stdout(s);
    }
    if let Some(s) = mk(stdio[2], &mut rawfd) {
        c.stderr(s);
    }
    let r = c.spawn();
    // ownership of a RawFd stream is undocumented: whoever did not close it, the harness does
    // (before the snapshot), so it never counts as a leak of the operation
    if let Some(fd) = rawfd {
        if unsafe { libc::fcntl(fd, libc::F_GETFD) } >= 0 {
            unsafe { libc::close(fd) };
        }
    }
    match r {
        Ok(mut ch) => {
            drop(ch.stdin.take());
            let mut sink = Vec::new();
            if let Some(o) = ch.stdout.as_mut() {
                let _ = o.read_to_end(&mut sink);
            }
            let _ = ch.wait();
            // the spawned program's own view: what spawn opened for its plumbing (sync pipe, the child's ends of the
            // stream pipes, /dev/null) must not be open there beyond the three streams
            if let Some(d) = std::fs::read(&dump_path).ok().and_then(|b| serde_json::from_slice::<serde_json::Value>(&b).ok()) {
                if let Some(fds) = d["fds"].as_array() {
                    let extra: Vec<String> = fds.iter().filter(|f| f["fd"].as_i64().is_some_and(|n| n > 2 && !inheritable.contains(&n))).map(|f| format!("{}", f["fd"])).collect();
                    if !extra.is_empty() {
                        COMPLAINT.with(|c| *c.borrow_mut() = Some(format!("the spawned program finds descriptors {} open that nobody handed to it (its table: {:?}; inherited from the caller by design: {inheritable:?})", extra.join(", "), fds.iter().filter_map(|f| f["fd"].as_i64()).collect::<Vec<_>>())));
                    }
                }
            }
            let owned = child_fds(&ch);
            Held::of(owned, ch)
        }
        Err(_) => Held::none(),
    }
}

// ------------------------------------------------------------------------------------------
// descriptor table snapshots
// ------------------------------------------------------------------------------------------

#[derive(Debug, Clone, PartialEq, Eq)]
pub struct FdInfo {
    pub link: Vec<u8>,
    pub dev: u64,
    pub ino: u64,
}

pub fn snapshot() -> BTreeMap<i32, FdInfo> {
    let mut m = BTreeMap::new();
    unsafe {
        let d = libc::opendir(c"/proc/self/fd".as_ptr());
        if d.is_null() {
            return m;
        }
        let dfd = libc::dirfd(d);
        loop {
            let e = libc::readdir(d);
            if e.is_null() {
                break;
            }
            let name = std::ffi::CStr::from_ptr((*e).d_name.as_ptr());
            let Ok(n) = name.to_string_lossy().parse::<i32>() else { continue };
            if n == dfd {
                continue;
            }
            let mut st: libc::stat = core::mem::zeroed();
            if libc::fstat(n, &mut st) != 0 {
                continue;
            }
            let mut buf = [0u8; 512];
            let path = std::ffi::CString::new(format!("/proc/self/fd/{n}")).unwrap();
            let l = libc::readlink(path.as_ptr(), buf.as_mut_ptr().cast(), buf.len());
            let link = if l > 0 { buf[..l as usize].to_vec() } else { vec![] };
            m.insert(n, FdInfo { link, dev: st.st_dev, ino: st.st_ino });
        }
        libc::closedir(d);
    }
    m
}

fn describe(m: &BTreeMap<i32, FdInfo>, fds: &[i32]) -> String {
    fds.iter().map(|f| format!("{f}->{}", m.get(f).map(|i| String::from_utf8_lossy(&i.link).to_string()).unwrap_or_else(|| "?".into()))).collect::<Vec<_>>().join(", ")
}

// ------------------------------------------------------------------------------------------
// environment
// ------------------------------------------------------------------------------------------

pub fn make_env(ctx: &Ctx) -> Env {
    let root = std::path::PathBuf::from(format!("/tmp/verif-c12-{}-{}", std::process::id(), ctx.worker));
    let _ = std::fs::remove_dir_all(&root);
    std::fs::create_dir_all(&root).unwrap();
    let lp = root.join("listen.sock");
    let c = std::ffi::CString::new(lp.as_os_str().as_bytes()).unwrap();
    let fd = unsafe {
        let fd = libc::socket(libc::AF_UNIX, libc::SOCK_STREAM | libc::SOCK_CLOEXEC, 0);
        let mut addr: libc::sockaddr_un = core::mem::zeroed();
        addr.sun_family = libc::AF_UNIX as u16;
        for (i, b) in c.as_bytes().iter().enumerate() {
            addr.sun_path[i] = *b as i8;
        }
        libc::bind(fd, core::ptr::addr_of!(addr).cast(), core::mem::size_of::<libc::sockaddr_un>() as u32);
        libc::listen(fd, 4096);
        // non-blocking so that draining the backlog in reset_files never waits
        let fl = libc::fcntl(fd, libc::F_GETFL);
        libc::fcntl(fd, libc::F_SETFL, fl | libc::O_NONBLOCK);
        fd
    };
    let tcp = std::net::TcpListener::bind("127.0.0.1:0").unwrap();
    let port = tcp.local_addr().unwrap().port();
    let helper = std::env::current_exe().unwrap().parent().unwrap().join("dumpenv");
    Env { root: root.clone(), unix_listener_path: lp.as_os_str().as_bytes().to_vec(), unix_listener_fd: fd, tcp_listener: tcp, tcp_port: port, helper: helper.as_os_str().as_bytes().to_vec() }
}

/// (Re)create the files every scenario expects; called before each run of an operation.
pub fn reset_files(e: &Env) {
    let r = &e.root;
    let _ = std::fs::write(r.join("file.txt"), b"some text\nmore text\n");
    let _ = std::fs::write(r.join("binary.bin"), [0xffu8, 0xfe, 0x00, 0x80]);
    let _ = std::fs::write(r.join("big.bin"), vec![7u8; 300_000]);
    for f in ["new.txt", "written.txt", "copy.bin", "copy2.bin", "bound.sock", "acc.sock", "acc2.sock", "dump.json", "rawout", "s\u{e9}\u{20ac}.sock"] {
        let _ = std::fs::remove_file(r.join(f));
    }
    let _ = std::fs::remove_dir_all(r.join("a"));
    let _ = std::fs::create_dir_all(r.join("dir/sub"));
    let _ = std::fs::write(r.join("dir/f1"), b"1");
    let _ = std::fs::write(r.join("dir/f2"), b"2");
    let _ = std::fs::create_dir_all(r.join("victim/x/y"));
    let _ = std::fs::write(r.join("victim/x/f"), b"1");
    let _ = std::fs::write(r.join("victim/g"), b"1");
    // drain connections queued at the harness listeners so their backlogs never fill
    unsafe {
        loop {
            let c = libc::accept4(e.unix_listener_fd, core::ptr::null_mut(), core::ptr::null_mut(), libc::SOCK_NONBLOCK | libc::SOCK_CLOEXEC);
            if c < 0 {
                break;
            }
            libc::close(c);
        }
    }
    let _ = e.tcp_listener.set_nonblocking(true);
    while let Ok((s, _)) = e.tcp_listener.accept() {
        drop(s);
    }
}

pub fn plausible_errnos(nr: usize) -> &'static [i32] {
    use libc::*;
    match nr {
        n if n == sc::nr::OPEN || n == sc::nr::OPENAT => &[EMFILE, ENFILE, ENOMEM, EACCES, ENOENT, EINTR],
        n if n == sc::nr::SOCKET => &[EMFILE, ENFILE, ENOMEM, ENOBUFS, EACCES],
        n if n == sc::nr::CONNECT => &[ECONNREFUSED, EACCES, ENOENT, EINTR, ETIMEDOUT],
        n if n == sc::nr::BIND => &[EADDRINUSE, EACCES, ENOENT, ENOMEM],
        n if n == sc::nr::LISTEN => &[EADDRINUSE, EOPNOTSUPP],
        n if n == sc::nr::ACCEPT || n == sc::nr::ACCEPT4 => &[EMFILE, ENFILE, ENOMEM, ECONNABORTED, EINTR],
        n if n == sc::nr::PIPE2 || n == sc::nr::PIPE => &[EMFILE, ENFILE],
        n if n == sc::nr::FORK || n == sc::nr::CLONE => &[EAGAIN, ENOMEM],
        n if n == sc::nr::READ || n == sc::nr::READV => &[EIO, EINTR, EBADF],
        n if n == sc::nr::WRITE || n == sc::nr::WRITEV => &[EIO, ENOSPC, EINTR, EPIPE],
        n if n == sc::nr::FSTAT || n == sc::nr::STAT || n == sc::nr::NEWFSTATAT || n == sc::nr::STATX => &[ENOMEM, EIO, EACCES],
        n if n == sc::nr::COPY_FILE_RANGE => &[EIO, ENOSPC, EXDEV, EINVAL, ENOMEM],
        n if n == sc::nr::GETDENTS64 => &[EIO, ENOMEM, EINTR],
        n if n == sc::nr::UNLINKAT || n == sc::nr::UNLINK || n == sc::nr::RMDIR => &[EACCES, EBUSY, EIO, ENOTEMPTY],
        n if n == sc::nr::MKDIR || n == sc::nr::MKDIRAT => &[EACCES, ENOSPC, EIO],
        n if n == sc::nr::PPOLL || n == sc::nr::POLL => &[EINTR, ENOMEM],
        n if n == sc::nr::IOCTL => &[EIO, ENOTTY, EINVAL],
        n if n == sc::nr::EPOLL_CREATE1 || n == sc::nr::EPOLL_CREATE => &[EMFILE, ENFILE, ENOMEM],
        n if n == sc::nr::IO_URING_SETUP => &[EMFILE, ENFILE, ENOMEM, EPERM],
        n if n == sc::nr::MMAP => &[ENOMEM, EAGAIN],
        n if n == sc::nr::WAIT4 => &[EINTR, ECHILD],
        n if n == sc::nr::FCNTL => &[EINVAL],
        n if n == sc::nr::GETSOCKNAME => &[ENOBUFS],
        n if n == sc::nr::DUP3 || n == sc::nr::DUP2 => &[EMFILE, EINTR],
        n if n == sc::nr::UNAME => &[EFAULT],
        _ => &[],
    }
}

/// Errnos the code under test branches on (retry, "would block", "already there"): a fault with one
/// of these takes a different path through the operation than an ordinary failure, so they are part
/// of the quick tier for every call, ahead of the first two ordinary ones.
pub fn branch_errnos(nr: usize) -> &'static [i32] {
    use libc::*;
    match nr {
        n if n == sc::nr::CONNECT => &[EAGAIN, EINPROGRESS, EALREADY, EINTR],
        n if n == sc::nr::ACCEPT || n == sc::nr::ACCEPT4 => &[EAGAIN, EINTR],
        n if n == sc::nr::READ || n == sc::nr::READV || n == sc::nr::WRITE || n == sc::nr::WRITEV => &[EAGAIN, EINTR],
        n if n == sc::nr::DUP3 || n == sc::nr::DUP2 => &[EBUSY, EINTR],
        n if n == sc::nr::MKDIR || n == sc::nr::MKDIRAT => &[EEXIST, ENOENT],
        n if n == sc::nr::OPEN || n == sc::nr::OPENAT => &[EINTR, EEXIST],
        n if n == sc::nr::PPOLL || n == sc::nr::POLL || n == sc::nr::WAIT4 => &[EINTR],
        _ => &[],
    }
}

fn quick_errnos(nr: usize, all: bool) -> Vec<i32> {
    let mut v: Vec<i32> = branch_errnos(nr).to_vec();
    let p = plausible_errnos(nr);
    for &e in if all { p } else { &p[..p.len().min(2)] } {
        if !v.contains(&e) {
            v.push(e);
        }
    }
    v
}

fn never_fault(nr: usize) -> bool {
    // forcing these to "fail" without executing would manufacture a leak / is not a failure mode
    nr == sc::nr::CLOSE || nr == sc::nr::MUNMAP || nr == sc::nr::EXIT || nr == sc::nr::EXIT_GROUP
}

pub struct RunResult {
    pub log: Vec<sc::verif::Call>,
    pub sig_err: Option<Failure>,
}

const CLOSED_STD: &str = "[caller's 0 and 1 closed]";

/// Run one (scenario, fault) pair and judge it. Scenarios marked CLOSED_STD run with the harness's
/// own descriptors 0 and 1 parked on high numbers and closed; they are put back afterwards.
// ------------------------------------------------------------------------------------------
// watchdog: an operation that waits for a child which itself waits for the caller (possible
// only under faults no kernel produces, e.g. read(2) on a pipe answering ENOSPC) must not
// stall the run: after 8 s every child of this process is killed and the case is not judged
// ------------------------------------------------------------------------------------------
static CASE_START_MS: std::sync::atomic::AtomicU64 = std::sync::atomic::AtomicU64::new(0);
static WATCHDOG_FIRED: std::sync::atomic::AtomicU32 = std::sync::atomic::AtomicU32::new(0);

fn now_ms() -> u64 {
    let mut ts = libc::timespec { tv_sec: 0, tv_nsec: 0 };
    unsafe { libc::clock_gettime(libc::CLOCK_MONOTONIC, &mut ts) };
    ts.tv_sec as u64 * 1000 + ts.tv_nsec as u64 / 1_000_000
}

/// (descriptor the case's thread was reading, write ends of the same pipe found open in this process)
static SELF_HELD: std::sync::Mutex<Option<(i32, Vec<i32>)>> = std::sync::Mutex::new(None);

fn start_watchdog() {
    static ONCE: std::sync::Once = std::sync::Once::new();
    ONCE.call_once(|| {
        std::thread::spawn(|| loop {
            std::thread::sleep(std::time::Duration::from_millis(300));
            let s = CASE_START_MS.load(std::sync::atomic::Ordering::SeqCst);
            if s != 0 && now_ms().saturating_sub(s) > 8000 {
                // first: from here on the case is not judged (this thread's own /proc handle
                // would show up in the descriptor table of the case)
                WATCHDOG_FIRED.fetch_add(1, std::sync::atomic::Ordering::SeqCst);
                let me = std::process::id();
                // Is the case's thread (the process's main thread) parked in read(2) on a pipe whose write end is
                // open in this very process? Then nothing outside can end the read: the operation waits for an
                // end-of-file that only a descriptor it left open itself withholds. Those write ends are recorded,
                // then closed here so that the worker goes on; the case is reported by `run_case`.
                if let Ok(sc) = std::fs::read_to_string(format!("/proc/self/task/{me}/syscall")) {
                    let f: Vec<&str> = sc.split_whitespace().collect();
                    if f.first() == Some(&"0") {
                        if let Some(rfd) = f.get(1).and_then(|x| i64::from_str_radix(x.trim_start_matches("0x"), 16).ok()) {
                            if let Ok(target) = std::fs::read_link(format!("/proc/self/fd/{rfd}")) {
                                if target.to_string_lossy().starts_with("pipe:") {
                                    let mut held = Vec::new();
                                    if let Ok(rd) = std::fs::read_dir("/proc/self/fd") {
                                        for e in rd.flatten() {
                                            let Some(n) = e.file_name().to_str().and_then(|n| n.parse::<i32>().ok()) else { continue };
                                            if n as i64 == rfd || std::fs::read_link(e.path()).ok().as_ref() != Some(&target) {
                                                continue;
                                            }
                                            let flags = std::fs::read_to_string(format!("/proc/self/fdinfo/{n}")).ok().and_then(|t| t.lines().find_map(|l| l.strip_prefix("flags:").and_then(|v| i64::from_str_radix(v.trim(), 8).ok()))).unwrap_or(0);
                                            if flags & 3 != 0 {
                                                held.push(n);
                                            }
                                        }
                                    }
                                    if !held.is_empty() {
                                        *SELF_HELD.lock().unwrap() = Some((rfd as i32, held.clone()));
                                        for n in held {
                                            unsafe { libc::close(n) };
                                        }
                                    }
                                }
                            }
                        }
                    }
                }
                if let Ok(rd) = std::fs::read_dir("/proc") {
                    for ent in rd.flatten() {
                        let Some(pid) = ent.file_name().to_str().and_then(|n| n.parse::<i32>().ok()) else { continue };
                        let Ok(stat) = std::fs::read_to_string(format!("/proc/{pid}/stat")) else { continue };
                        // "pid (comm) S ppid ..." - comm may contain spaces: split after the last ')'
                        let Some(rest) = stat.rsplit_once(')').map(|x| x.1) else { continue };
                        let ppid: u32 = rest.split_whitespace().nth(1).and_then(|x| x.parse().ok()).unwrap_or(0);
                        if ppid == me {
                            unsafe { libc::kill(pid, libc::SIGKILL) };
                        }
                    }
                }
                CASE_START_MS.store(now_ms(), std::sync::atomic::Ordering::SeqCst);
            }
        });
    });
}

pub fn run_case(env: &Env, name: &str, op: Op, fault: Option<(u32, i32)>, fault2: Option<(u32, i32)>, after_exec: bool, child_fault: &Option<(String, u32, i32)>, rep: &mut CaseReport) -> Result<Vec<sc::verif::Call>, Failure> {
    start_watchdog();
    let fired0 = WATCHDOG_FIRED.load(std::sync::atomic::Ordering::SeqCst);
    CASE_START_MS.store(now_ms(), std::sync::atomic::Ordering::SeqCst);
    let r = run_case_std(env, name, op, fault, fault2, after_exec, child_fault, rep);
    CASE_START_MS.store(0, std::sync::atomic::Ordering::SeqCst);
    if WATCHDOG_FIRED.load(std::sync::atomic::Ordering::SeqCst) != fired0 {
        let _ = sc::verif::log_end();
        sc::verif::clear_plan();
        reap();
        if let Some((rfd, held)) = SELF_HELD.lock().unwrap().take() {
            return Err(Failure::new(
                format!("{name}|never-returns|reads a pipe whose write end it left open itself"),
                format!("{name} (fault {fault:?}/{fault2:?}) sat in read({rfd}) for more than 8 s on a pipe whose write end was open in the same process as descriptor(s) {held:?} and nowhere else: the end-of-file it waits for is withheld by a descriptor the operation itself did not close (the harness closed it to go on)"),
            ));
        }
        rep.class("harness-watchdog-killed-a-blocked-child(not judged)");
        eprintln!("[C12] watchdog: {name} with fault {fault:?}/{fault2:?} waited for a child for more than 8 s; children killed, case not judged");
        return Ok(Vec::new());
    }
    r
}

fn run_case_std(env: &Env, name: &str, op: Op, fault: Option<(u32, i32)>, fault2: Option<(u32, i32)>, after_exec: bool, child_fault: &Option<(String, u32, i32)>, rep: &mut CaseReport) -> Result<Vec<sc::verif::Call>, Failure> {
    if !name.contains(CLOSED_STD) {
        return run_case_inner(env, name, op, fault, fault2, after_exec, child_fault, rep);
    }
    let mut saved: Vec<(i32, i32)> = Vec::new();
    for n in 0..2 {
        let hi = unsafe { libc::fcntl(n, libc::F_DUPFD_CLOEXEC, 200) };
        if hi >= 0 {
            saved.push((n, hi));
            unsafe { libc::close(n) };
        }
    }
    let r = run_case_inner(env, name, op, fault, fault2, after_exec, child_fault, rep);
    let _ = sc::verif::log_end();
    sc::verif::clear_plan();
    for (n, hi) in saved {
        unsafe {
            libc::dup2(hi, n);
            libc::close(hi);
        }
    }
    rep.class("caller-std-descriptors-closed");
    r
}

fn run_case_inner(env: &Env, name: &str, op: Op, fault: Option<(u32, i32)>, fault2: Option<(u32, i32)>, after_exec: bool, child_fault: &Option<(String, u32, i32)>, rep: &mut CaseReport) -> Result<Vec<sc::verif::Call>, Failure> {
    reset_files(env);
    let before = snapshot();
    let mut rules = Vec::new();
    if !after_exec {
        // whatever index a fault is aimed at: close, munmap and exit are always executed (answering
        // them with an error WITHOUT executing them would manufacture the very leak - or a child
        // that never sees end-of-file - that this check looks for)
        for nr in [sc::nr::CLOSE, sc::nr::MUNMAP, sc::nr::EXIT, sc::nr::EXIT_GROUP] {
            rules.push(Rule { nr: Some(nr), nth: None, action: Action::PassThrough, times: usize::MAX });
        }
    }
    if let Some((j, e)) = fault {
        let action = if after_exec { Action::ExecThenRet(sc::verif::neg_errno(e)) } else { Action::ForceRet(sc::verif::neg_errno(e)) };
        rules.push(Rule { nr: None, nth: Some(j as usize), action, times: 1 });
    }
    if let Some((k, e)) = fault2 {
        rules.push(Rule { nr: None, nth: Some(k as usize), action: Action::ForceRet(sc::verif::neg_errno(e)), times: 1 });
    }
    if let Some((sys, nth, e)) = child_fault {
        let nr = match sys.as_str() {
            "dup3" => sc::nr::DUP3,
            "execve" => sc::nr::EXECVE,
            "chdir" => sc::nr::CHDIR,
            _ => sc::nr::EXECVE,
        };
        rules.push(Rule { nr: Some(nr), nth: Some(*nth as usize), action: Action::ForceRet(sc::verif::neg_errno(*e)), times: 1 });
    }
    sc::verif::install();
    sc::verif::plan(rules);
    sc::verif::log_begin();
    let parent = unsafe { libc::getpid() };
    COMPLAINT.with(|c| *c.borrow_mut() = None);
    let held = catch(|| op(env));
    if unsafe { libc::getpid() } != parent {
        unsafe { libc::_exit(0) };
    }
    // the plan stays active through the drop of the returned value (faults may target the closes
    // issued there); the log is split at this point
    let log = sc::verif::log_peek();
    let held = held.map_err(|(loc, msg)| Failure::new(format!("{name}|panic|{loc}"), format!("{name} panicked at {loc}: {msg}")))?;
    if let Some(what) = COMPLAINT.with(|c| c.borrow_mut().take()) {
        fail!(format!("{name}|left a descriptor of its plumbing open in the spawned program"), "{name} (fault {fault:?}): {what}");
    }

    let after = snapshot();
    let new_fds: Vec<i32> = after.keys().filter(|k| !before.contains_key(k)).copied().collect();
    let gone: Vec<i32> = before.keys().filter(|k| !after.contains_key(k)).copied().collect();
    ensure!(gone.is_empty(), format!("{name}|closed a descriptor it does not own"), "{name} (fault {fault:?}): descriptors open before the call are gone afterwards: {}", describe(&before, &gone));
    for (fd, info) in &before {
        if after.get(fd) != Some(info) {
            fail!(format!("{name}|stole a descriptor number"), "{name} (fault {fault:?}): descriptor {fd} now refers to {:?}, before the call {:?}", after.get(fd).map(|i| String::from_utf8_lossy(&i.link).to_string()), String::from_utf8_lossy(&info.link));
        }
    }
    // owned: -1 stands for "exactly one descriptor that is not exposed by the API"
    let mut owned: Vec<i32> = held.owned.iter().copied().filter(|&f| f >= 0).collect();
    let anonymous = held.owned.iter().filter(|&&f| f < 0).count();
    owned.sort_unstable();
    owned.dedup();
    let mut unexpected: Vec<i32> = new_fds.iter().copied().filter(|f| !owned.contains(f)).collect();
    for _ in 0..anonymous {
        if !unexpected.is_empty() {
            unexpected.remove(0);
        }
    }
    let mut step = fault.map(|(j, e)| format!("syscall #{j} ({}) failing with errno {e}", log.get(j as usize).map(|c| c.nr.to_string()).unwrap_or_default())).unwrap_or_else(|| "no fault".into());
    if let Some((k, e)) = fault2 {
        step.push_str(&format!(", then syscall #{k} ({}) failing with errno {e}", log.get(k as usize).map(|c| c.nr.to_string()).unwrap_or_default()));
    }
    ensure!(unexpected.is_empty(), format!("{name}|leaked a descriptor"), "{name} ({step}): still open after the call and not owned by the returned value: {}", describe(&after, &unexpected));
    let missing: Vec<i32> = owned.iter().copied().filter(|f| !after.contains_key(f)).collect();
    ensure!(missing.is_empty(), format!("{name}|returned a closed descriptor"), "{name} ({step}): the returned value claims descriptors {missing:?} which are not open");

    // log-based: closes must target descriptors this operation created and still holds
    let mut created: Vec<i32> = Vec::new();
    let mut closed: Vec<i32> = Vec::new();
    for c in &log {
        if c.nr == sc::nr::CLOSE && c.executed {
            let fd = c.args[0] as i32;
            let ebadf = c.ret == sc::verif::neg_errno(libc::EBADF);
            ensure!(!ebadf, format!("{name}|double close"), "{name} ({step}): close({fd}) returned EBADF (already closed)");
            if before.contains_key(&fd) {
                fail!(format!("{name}|closed a descriptor it does not own"), "{name} ({step}): close({fd}) on a descriptor that was open before the call ({})", describe(&before, &[fd]));
            }
            closed.push(fd);
        }
    }
    let _ = &mut created;
    // now drop the value: table must be back to `before`
    for fd in &held.close_raw {
        unsafe { libc::close(*fd) };
    }
    let log_len = log.len();
    drop(held);
    let full_log = sc::verif::log_end();
    sc::verif::clear_plan();
    let drop_log: Vec<sc::verif::Call> = full_log[log_len.min(full_log.len())..].to_vec();
    for c in &drop_log {
        if c.nr == sc::nr::CLOSE && c.executed {
            let fd = c.args[0] as i32;
            ensure!(c.ret != sc::verif::neg_errno(libc::EBADF), format!("{name}|double close on drop"), "{name} ({step}): dropping the returned value closed {fd} which was already closed");
            ensure!(!before.contains_key(&fd), format!("{name}|drop closed a descriptor it does not own"), "{name} ({step}): drop closed {fd}");
        }
        if c.nr == sc::nr::MUNMAP && c.executed && c.ret != 0 {
            fail!(format!("{name}|munmap failed on drop"), "{name} ({step}): munmap({:#x},{}) on drop returned {}", c.args[0], c.args[1], c.ret as isize);
        }
    }
    let end = snapshot();
    let left: Vec<i32> = end.keys().filter(|k| !before.contains_key(k)).copied().collect();
    ensure!(left.is_empty(), format!("{name}|leaked a descriptor after drop"), "{name} ({step}): after dropping the returned value still open: {}", describe(&end, &left));
    ensure!(end == before, format!("{name}|descriptor table changed"), "{name} ({step}): descriptor table after drop differs from before");
    rep.class_if(!new_fds.is_empty(), "returned-descriptors");
    rep.class_if(!closed.is_empty(), "closed-on-the-way");
    Ok(full_log)
}

pub fn check_case(env: &Env, c: &FdCase) -> CaseResult {
    let mut rep = CaseReport::new();
    let scn = scenarios();
    let Some((name, op)) = scn.iter().find(|(n, _)| *n == c.scenario) else {
        return Err(Failure::new("harness|unknown scenario", c.scenario.clone()));
    };
    let r = run_case(env, name, *op, c.fault, c.fault2, c.after_exec, &c.child_fault, &mut rep);
    // never leave a plan or an open log behind (error paths return early)
    let _ = sc::verif::log_end();
    sc::verif::clear_plan();
    r?;
    reap();
    rep.nontrivial_if(c.fault.map(|(j, _)| j >= 1).unwrap_or(false) || c.child_fault.is_some());
    rep.class_if(c.fault.is_none() && c.child_fault.is_none(), "no-fault");
    rep.class_if(c.fault.is_some(), "parent-fault");
    rep.class_if(c.child_fault.is_some(), "child-fault");
    rep.class_if(c.after_exec, "close-reports-error-after-releasing");
    rep.class_if(c.fault2.is_some(), "two-faults");
    Ok(rep)
}

fn reap() {
    loop {
        let mut st = 0;
        let r = unsafe { libc::waitpid(-1, &mut st, libc::WNOHANG) };
        if r <= 0 {
            break;
        }
    }
}

pub fn run(ctx: &Ctx) {
    let env = make_env(ctx);
    if ctx.is_replay() {
        if let Some(c) = ctx.replay_case::<FdCase>("fd-table") {
            ctx.run_one("fd-table", &c, || check_case(&env, &c));
        }
        let _ = std::fs::remove_dir_all(&env.root);
        return;
    }
    let scn = scenarios();
    let all_errnos = ctx.thorough();
    let mut complete = true;
    let mut total = 0u64;
    let mut pairs = 0u64;
    for (i, (name, op)) in scn.iter().enumerate() {
        if i % ctx.nworkers as usize != ctx.worker as usize {
            continue;
        }
        // dry run: the syscall sequence of the fault-free operation
        let base = FdCase { scenario: name.to_string(), fault: None, child_fault: None, after_exec: false, fault2: None };
        let mut dry_log = Vec::new();
        let ok = ctx.run_one("fd-table", &base, || {
            let mut rep = CaseReport::new();
            let r = run_case(&env, name, *op, None, None, false, &None, &mut rep);
            let _ = sc::verif::log_end();
            sc::verif::clear_plan();
            dry_log = r?;
            reap();
            rep.class("no-fault");
            Ok(rep)
        });
        total += 1;
        let mut seen_sigs = !ok;
        // every index of the sequence, each plausible errno (quick: the first one)
        for (j, call) in dry_log.iter().enumerate() {
            if call.nr == sc::nr::CLOSE {
                // close(2) releases the descriptor even when it reports an error: execute it,
                // then answer EINTR / EIO. The operation must not close that number again.
                for &e in &[libc::EINTR, libc::EIO][..if all_errnos { 2 } else { 1 }] {
                    let case = FdCase { scenario: name.to_string(), fault: Some((j as u32, e)), child_fault: None, after_exec: true, fault2: None };
                    let ok = ctx.run_one("fd-table", &case, || check_case(&env, &case));
                    total += 1;
                    if !ok {
                        seen_sigs = true;
                    }
                }
                continue;
            }
            if never_fault(call.nr) {
                continue;
            }
            let errs = quick_errnos(call.nr, all_errnos);
            for &e in errs.iter() {
                let case = FdCase { scenario: name.to_string(), fault: Some((j as u32, e)), child_fault: None, after_exec: false, fault2: None };
                let mut log1 = Vec::new();
                let ok = ctx.run_one("fd-table", &case, || {
                    let mut rep = CaseReport::new();
                    let r = run_case(&env, name, *op, case.fault, None, false, &None, &mut rep);
                    let _ = sc::verif::log_end();
                    sc::verif::clear_plan();
                    log1 = r?;
                    reap();
                    rep.nontrivial_if(j >= 1);
                    rep.class("parent-fault");
                    Ok(rep)
                });
                total += 1;
                if !ok {
                    seen_sigs = true;
                    continue;
                }
                // the operation went on after a fault it recovers from: fail each later call as well
                if !branch_errnos(call.nr).contains(&e) || log1.len() <= j + 1 {
                    continue;
                }
                for (k, call2) in log1.iter().enumerate().skip(j + 1) {
                    if call2.nr == sc::nr::CLOSE || never_fault(call2.nr) {
                        continue;
                    }
                    for &e2 in quick_errnos(call2.nr, false).iter() {
                        let case2 = FdCase { scenario: name.to_string(), fault: Some((j as u32, e)), child_fault: None, after_exec: false, fault2: Some((k as u32, e2)) };
                        let ok = ctx.run_one("fd-table", &case2, || check_case(&env, &case2));
                        total += 1;
                        pairs += 1;
                        if !ok {
                            seen_sigs = true;
                        }
                    }
                }
            }
        }
        if name.starts_with("Command::spawn") {
            for (sys, n) in [("dup3", 3u32), ("execve", 1), ("chdir", 1)] {
                for nth in 0..n {
                    for &e in &[libc::EMFILE, libc::EACCES][..if all_errnos { 2 } else { 1 }] {
                        let case = FdCase { scenario: name.to_string(), fault: None, child_fault: Some((sys.to_string(), nth, e)), after_exec: false, fault2: None };
                        let ok = ctx.run_one("fd-table", &case, || check_case(&env, &case));
                        total += 1;
                        if !ok {
                            seen_sigs = true;
                        }
                    }
                }
            }
        }
        if seen_sigs {
            complete = false;
        }
    }
    if complete {
        ctx.note_exhaustive(format!("fd-table: every scenario of this worker's share ({} scenarios in total) x every index of its syscall sequence x {} plausible errno(s) per call plus every errno the code branches on (EAGAIN, EINPROGRESS, EINTR, EBUSY, EEXIST...); and, after every fault the operation recovers from, every later call failing as well ({} two-fault cases); {} cases on this worker", scn.len(), if all_errnos { "all" } else { "the first two" }, pairs, total));
    }
    // thorough: any scenario, up to two faults at any index of the sequence, any assigned errno
    if ctx.thorough() {
        use proptest::prelude::*;
        let names: Vec<String> = scn.iter().map(|(n, _)| n.to_string()).collect();
        let errno = prop_oneof![3 => prop::sample::select(vec![libc::EINTR, libc::EAGAIN, libc::ENOMEM, libc::EMFILE, libc::ENFILE, libc::EIO, libc::EACCES, libc::ENOENT, libc::EEXIST, libc::EBUSY, libc::EINVAL, libc::EBADF, libc::ENOSPC, libc::EINPROGRESS, libc::EALREADY, libc::ECONNREFUSED, libc::ENOTDIR, libc::EISDIR, libc::ELOOP, libc::ENAMETOOLONG]), 1 => 1i32..=133];
        let strat = (prop::sample::select(names), 0u32..48, errno.clone(), prop::option::weighted(0.5, (1u32..24, errno))).prop_map(|(scenario, j, e1, second)| FdCase { scenario, fault: Some((j, e1)), child_fault: None, after_exec: false, fault2: second.map(|(d, e2)| (j + d, e2)) });
        ctx.run_prop_opts("fd-table-rand", ctx.cases(0, 2500), 40, strat, |c| {
            // never force close/munmap/exit to fail without executing (that would manufacture a leak):
            // such draws are judged as the fault-free run
            check_case_guarded(&env, c)
        });
    }
    unsafe { libc::close(env.unix_listener_fd) };
    let _ = std::fs::remove_dir_all(&env.root);
}

/// `check_case` for drawn fault positions: the syscall sequence is not known in advance, so the
/// faults are applied through rules that skip the calls that must never be faulted.
fn check_case_guarded(env: &Env, c: &FdCase) -> CaseResult {
    // a dry run of the same scenario under the first fault tells which calls the indexes hit
    let scn = scenarios();
    let Some((name, op)) = scn.iter().find(|(n, _)| *n == c.scenario) else {
        return Err(Failure::new("harness|unknown scenario", c.scenario.clone()));
    };
    let mut rep = CaseReport::new();
    let dry = run_case(env, name, *op, None, None, false, &None, &mut rep);
    let _ = sc::verif::log_end();
    sc::verif::clear_plan();
    let dry = dry?;
    reap();
    let ok_at = |log: &[sc::verif::Call], idx: u32| log.get(idx as usize).map(|call| call.nr != sc::nr::CLOSE && !never_fault(call.nr)).unwrap_or(false);
    let Some((j, e1)) = c.fault else { return Ok(rep) };
    if !ok_at(&dry, j) {
        rep.class("drawn-index-not-faultable");
        return Ok(rep);
    }
    let mut rep1 = CaseReport::new();
    let one = run_case(env, name, *op, Some((j, e1)), None, false, &None, &mut rep1);
    let _ = sc::verif::log_end();
    sc::verif::clear_plan();
    let log1 = one?;
    reap();
    rep1.nontrivial_if(j >= 1);
    rep1.class("parent-fault");
    let Some((k, e2)) = c.fault2 else { return Ok(rep1) };
    if !ok_at(&log1, k) {
        return Ok(rep1);
    }
    let case2 = FdCase { scenario: c.scenario.clone(), fault: Some((j, e1)), child_fault: None, after_exec: false, fault2: Some((k, e2)) };
    check_case(env, &case2)
}
