//! Property C13 against tiny-std built without the `start` feature (same oracle source as c13).
#[path = "../../c13/src/check.rs"]
mod check;

fn main() {
    vh::runner::main_for(|ctx| check::run(ctx));
}
