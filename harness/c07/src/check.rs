//! C07 — start-up: argv, environment, aux values delivered exactly in every link mode.
//!
//! Driver for the no-libc probe `probe-env` (see /verif/probes/env/src/main.rs for the wire format).
//! Every case is executed on several builds of the probe (dynamic PIE / static / static PIE x
//! debug / release) with raw argv/envp arrays handed to posix_spawn; what the probe echoes is
//! compared with what was passed and with an explicit model of the environment lookup.
use std::cell::RefCell;
use std::time::Duration;

use vh::runner::{hash_of, CaseReport, CaseResult, Ctx, Failure};
use vh::util::escape;

mod elf;
mod gen;
mod launch;
use gen::{lookup_case, startup_case, Case, BUILD_CLASS, MODES, NB};

pub const SIG_PREFIX_VAR: &str = "env::var|wrong-entry|entry name is a proper prefix of the key";
pub const SIG_PREFIX_VAR_UNIX: &str = "env::var_unix|wrong-entry|entry name is a proper prefix of the key";

const AT_UID: u64 = 11;
const AT_GID: u64 = 13;
const AT_RANDOM: u64 = 25;
const AT_EXECFN: u64 = 31;

// ------------------------------------------------------------------------------------------
// model of the environment lookup
// ------------------------------------------------------------------------------------------

/// (name, value) of an entry: the bytes before / after its first '='; entries without '=' have no name.
pub fn split_entry(e: &[u8]) -> Option<(&[u8], &[u8])> {
    e.iter().position(|&c| c == b'=').map(|p| (&e[..p], &e[p + 1..]))
}

/// The statement: value of the FIRST entry whose name equals the key exactly, missing otherwise.
pub fn model_lookup<'a>(envp: &'a [Vec<u8>], key: &[u8]) -> Option<&'a [u8]> {
    envp.iter().filter_map(|e| split_entry(e)).find(|(n, _)| *n == key).map(|(_, v)| v)
}

/// What a lookup that only tests `entry[common_prefix_len] == '='` would return, and whether the
/// chosen entry's name is a proper prefix of the key (used only to NAME a mismatch, never to accept one).
fn prefix_accepting_lookup<'a>(envp: &'a [Vec<u8>], key: &[u8]) -> Option<(&'a [u8], bool)> {
    for e in envp {
        let m = key.iter().zip(e.iter()).take_while(|(a, b)| a == b).count();
        if m != 0 && e.get(m) == Some(&b'=') {
            return Some((&e[m + 1..], m < key.len()));
        }
    }
    None
}

#[derive(Debug, Clone, PartialEq, Eq)]
pub enum Look {
    Missing,
    Value(Vec<u8>),
    NotUnicode,
    NotAsked,
}

impl Look {
    fn kind(&self) -> &'static str {
        match self {
            Look::Missing => "Missing",
            Look::Value(_) => "a value",
            Look::NotUnicode => "NotUnicode",
            Look::NotAsked => "not asked",
        }
    }
    fn show(&self) -> String {
        match self {
            Look::Value(v) => format!("Ok(\"{}\")", escape(v)),
            Look::Missing => "Err(Missing)".into(),
            Look::NotUnicode => "Err(NotUnicode)".into(),
            Look::NotAsked => "(not asked)".into(),
        }
    }
}

// ------------------------------------------------------------------------------------------
// probe output
// ------------------------------------------------------------------------------------------

#[derive(Debug, Default)]
pub struct Echo {
    len_hint: u64,
    args_os: Vec<Vec<u8>>,
    args_os_n: u64,
    args: Vec<Option<Vec<u8>>>,
    args_n: u64,
    /// (op, k, result) of the iterator-protocol record
    iter_ops: Vec<(u8, u32, u32)>,
    lookups: Vec<(Vec<u8>, Look, Look)>,
    uid: u64,
    gid: u64,
    random: Option<[u8; 16]>,
    execfn: Option<Vec<u8>>,
    auxv: Vec<u8>,
    random_at: Option<[u8; 16]>,
    execfn_at: Option<Vec<u8>>,
    clock: [i64; 18],
    /// built with the minimal feature set (no aux getters to judge)
    min: bool,
    /// load base and the words found at the requested link-time addresses
    peek: Option<(u64, Vec<u64>)>,
}

fn u64le(b: &[u8]) -> Option<u64> {
    Some(u64::from_le_bytes(b.try_into().ok()?))
}

fn look(b: &[u8]) -> Option<Look> {
    match b.first()? {
        0 => Some(Look::Missing),
        1 => Some(Look::Value(b[1..].to_vec())),
        2 => Some(Look::NotUnicode),
        3 => Some(Look::NotAsked),
        _ => None,
    }
}

fn opt_bytes(b: &[u8]) -> Option<Option<Vec<u8>>> {
    match b.first()? {
        0 => Some(None),
        1 => Some(Some(b[1..].to_vec())),
        _ => None,
    }
}

/// Parse the record stream; Err(description) when it is truncated or out of order.
pub fn parse(out: &[u8]) -> Result<Echo, String> {
    let mut recs: Vec<(u8, &[u8])> = Vec::new();
    let mut p = 0usize;
    while p < out.len() {
        if p + 5 > out.len() {
            return Err(format!("truncated record header at byte {p} of {}", out.len()));
        }
        let tag = out[p];
        let len = u32::from_le_bytes(out[p + 1..p + 5].try_into().unwrap()) as usize;
        p += 5;
        if p + len > out.len() {
            return Err(format!("truncated record '{}' ({} of {} payload bytes)", tag as char, out.len() - p, len));
        }
        recs.push((tag, &out[p..p + len]));
        p += len;
    }
    if recs.last().map(|r| r.0) != Some(b'Z') {
        return Err(format!("no end marker after {} records ({} bytes)", recs.len(), out.len()));
    }
    let mut e = Echo::default();
    let mut it = recs.into_iter().peekable();
    let bad = |what: &str| format!("malformed record stream: {what}");
    let take = |it: &mut std::iter::Peekable<std::vec::IntoIter<(u8, &[u8])>>, tag: u8| -> Result<Vec<u8>, String> {
        match it.next() {
            Some((t, b)) if t == tag => Ok(b.to_vec()),
            Some((t, _)) => Err(format!("malformed record stream: expected '{}' got '{}'", tag as char, t as char)),
            None => Err(format!("malformed record stream: expected '{}' got end", tag as char)),
        }
    };
    e.len_hint = u64le(&take(&mut it, b'C')?).ok_or_else(|| bad("C"))?;
    while it.peek().map(|r| r.0) == Some(b'a') {
        e.args_os.push(it.next().unwrap().1.to_vec());
    }
    e.args_os_n = u64le(&take(&mut it, b'n')?).ok_or_else(|| bad("n"))?;
    while it.peek().map(|r| r.0) == Some(b's') {
        e.args.push(opt_bytes(it.next().unwrap().1).ok_or_else(|| bad("s"))?);
    }
    e.args_n = u64le(&take(&mut it, b'm')?).ok_or_else(|| bad("m"))?;
    let ib = take(&mut it, b'i')?;
    if ib.len() % 9 != 0 {
        return Err(bad("i"));
    }
    e.iter_ops = ib.chunks(9).map(|c| (c[0], u32::from_le_bytes(c[1..5].try_into().unwrap()), u32::from_le_bytes(c[5..9].try_into().unwrap()))).collect();
    while it.peek().map(|r| r.0) == Some(b'K') {
        let k = it.next().unwrap().1.to_vec();
        let u = look(&take(&mut it, b'u')?).ok_or_else(|| bad("u"))?;
        let v = look(&take(&mut it, b'v')?).ok_or_else(|| bad("v"))?;
        e.lookups.push((k, u, v));
    }
    if it.peek().map(|r| r.0) == Some(b'M') {
        // the minimal-feature build has no aux getters
        it.next();
        e.min = true;
    } else {
        e.uid = u64le(&take(&mut it, b'U')?).ok_or_else(|| bad("U"))?;
        e.gid = u64le(&take(&mut it, b'G')?).ok_or_else(|| bad("G"))?;
        e.random = match opt_bytes(&take(&mut it, b'R')?).ok_or_else(|| bad("R"))? {
            None => None,
            Some(b) => Some(b.as_slice().try_into().map_err(|_| bad("R length"))?),
        };
        e.execfn = opt_bytes(&take(&mut it, b'E')?).ok_or_else(|| bad("E"))?;
    }
    e.auxv = take(&mut it, b'X')?;
    let r = take(&mut it, b'r')?;
    e.random_at = if r.is_empty() { None } else { Some(r.as_slice().try_into().map_err(|_| bad("r length"))?) };
    e.execfn_at = opt_bytes(&take(&mut it, b'e')?).ok_or_else(|| bad("e"))?;
    if it.peek().map(|r| r.0) == Some(b'B') {
        let base = u64le(&take(&mut it, b'B')?).ok_or_else(|| bad("B"))?;
        let w = take(&mut it, b'p')?;
        if w.len() % 8 != 0 {
            return Err(bad("p length"));
        }
        e.peek = Some((base, w.chunks(8).map(|c| u64::from_le_bytes(c.try_into().unwrap())).collect()));
    }
    let t = take(&mut it, b'T')?;
    if t.len() != 144 {
        return Err(bad("T length"));
    }
    for j in 0..18 {
        e.clock[j] = i64::from_le_bytes(t[j * 8..j * 8 + 8].try_into().unwrap());
    }
    take(&mut it, b'Z')?;
    Ok(e)
}

fn aux_value(auxv: &[u8], key: u64) -> Option<u64> {
    let mut i = 0;
    while i + 16 <= auxv.len() {
        let k = u64::from_ne_bytes(auxv[i..i + 8].try_into().unwrap());
        let v = u64::from_ne_bytes(auxv[i + 8..i + 16].try_into().unwrap());
        if k == 0 {
            return None;
        }
        if k == key {
            return Some(v);
        }
        i += 16;
    }
    None
}

// ------------------------------------------------------------------------------------------
// running and judging one case
// ------------------------------------------------------------------------------------------

#[derive(Clone, Copy, PartialEq, Eq)]
pub enum Scope {
    /// everything the probe echoes
    All,
    /// only `var` results (focused sub-check)
    Var,
    /// only `var_unix` results (focused sub-check)
    VarUnix,
}

pub struct Env<'a> {
    pub ctx: &'a Ctx,
    pub probe_dir: String,
    /// the driver may change the probe's uid/gid
    pub root: bool,
    /// the driver may give the probe a time namespace of its own
    pub timens: bool,
    /// the driver may trace the probe (to start it without a vDSO)
    pub novdso: bool,
    /// relocation tables of the six builds (read from the executables)
    pub relocs: [Option<elf::RelocInfo>; NB],
    /// the optional builds that exist
    pub have: [bool; NB],
    /// signature this sub-check is shrinking towards (set at its first failure)
    pub target: RefCell<Option<String>>,
}

fn probe_path(root: &str, mode: usize) -> String {
    let m = MODES[mode];
    let prof = if m.ends_with("debug") { "debug" } else { "release" };
    format!("{root}/probes/target-{m}/x86_64-unknown-linux-gnu/{prof}/probe-env")
}

fn strip_nul(b: &[u8]) -> Vec<u8> {
    b.iter().copied().filter(|&c| c != 0).collect()
}

/// Compare one lookup result with the model; push a failure when it differs.
fn judge_lookup(api: &str, envp: &[Vec<u8>], key: &[u8], obs: &Look, is_str_api: bool, mode: &str, fails: &mut Vec<Failure>) {
    let expected = match model_lookup(envp, key) {
        None => Look::Missing,
        Some(v) => {
            if is_str_api && std::str::from_utf8(v).is_err() {
                Look::NotUnicode
            } else {
                Look::Value(v.to_vec())
            }
        }
    };
    // var_unix hands out the raw bytes; its doc comment (shared with `var`) also mentions a
    // not-UTF-8 error, so for a non-UTF-8 value of the RIGHT entry both outcomes are accepted there
    let ok = *obs == expected
        || (!is_str_api && *obs == Look::NotUnicode && matches!(&expected, Look::Value(v) if std::str::from_utf8(v).is_err()));
    if ok {
        return;
    }
    let shown_env: Vec<String> = envp.iter().map(|e| format!("\"{}\"", escape(e))).collect();
    let what = format!(
        "[{mode}] {api}(\"{}\") returned {} but the first entry whose name equals the key gives {}; envp = [{}]",
        escape(key),
        obs.show(),
        expected.show(),
        shown_env.join(", ")
    );
    // name the shape
    if let Some((val, proper)) = prefix_accepting_lookup(envp, key) {
        let as_obs = if is_str_api && std::str::from_utf8(val).is_err() { Look::NotUnicode } else { Look::Value(val.to_vec()) };
        if proper && as_obs == *obs {
            fails.push(Failure::new(format!("{api}|wrong-entry|entry name is a proper prefix of the key"), what));
            return;
        }
    }
    let shape = match (&expected, obs) {
        (Look::Value(_), Look::Value(o)) => {
            let later_dup = envp.iter().filter_map(|e| split_entry(e)).filter(|(n, _)| *n == key).skip(1).any(|(_, v)| v == o.as_slice());
            if later_dup {
                "value of a later duplicate".to_string()
            } else {
                "different value".to_string()
            }
        }
        (e, o) => format!("expected {} got {}", e.kind(), o.kind()),
    };
    fails.push(Failure::new(format!("{api}|wrong-result|{shape}"), what));
}

/// All deviations of one probe run from the model, most specific first; prefix-defect lookups last.
fn judge(case_argv: &[Vec<u8>], envp: &[Vec<u8>], keys: &[Vec<u8>], path: &str, mode: &str, e: &Echo, scope: Scope, ids: (u32, u32), relocs: Option<&elf::RelocInfo>, timens: Option<(u32, u32)>) -> Vec<Failure> {
    let tns = timens.map(|(m, b)| format!(" (time namespace: monotonic +{m} s, boottime +{b} s)")).unwrap_or_default();
    let mut f: Vec<Failure> = Vec::new();
    if scope == Scope::All {
        let argc = case_argv.len() as u64;
        if e.len_hint != argc {
            f.push(Failure::new("env::args_os|wrong-count|len() != argc", format!("[{mode}] args_os().len() = {} but {} arguments were passed", e.len_hint, argc)));
        }
        if e.args_os_n != argc || e.args_os.len() as u64 != argc {
            f.push(Failure::new(
                "env::args_os|wrong-count|yielded != argc",
                format!("[{mode}] args_os() yielded {} elements but {} arguments were passed", e.args_os_n, argc),
            ));
        }
        for (i, (got, want)) in e.args_os.iter().zip(case_argv.iter()).enumerate() {
            if got != want {
                f.push(Failure::new(
                    "env::args_os|wrong-bytes|argument differs",
                    format!("[{mode}] args_os()[{i}] = \"{}\" ({} bytes) but \"{}\" ({} bytes) was passed", escape(&got[..got.len().min(80)]), got.len(), escape(&want[..want.len().min(80)]), want.len()),
                ));
                break;
            }
        }
        if e.args_n != argc || e.args.len() as u64 != argc {
            f.push(Failure::new("env::args|wrong-count|yielded != argc", format!("[{mode}] args() yielded {} elements but {} arguments were passed", e.args_n, argc)));
        }
        for (i, (got, want)) in e.args.iter().zip(case_argv.iter()).enumerate() {
            let want_ok = std::str::from_utf8(want).is_ok();
            match got {
                Some(s) if !want_ok => {
                    f.push(Failure::new("env::args|wrong-result|Ok for a non-UTF-8 argument", format!("[{mode}] args()[{i}] = Ok(\"{}\") for the non-UTF-8 argument \"{}\"", escape(s), escape(want))));
                    break;
                }
                None if want_ok => {
                    f.push(Failure::new("env::args|wrong-result|Err for a UTF-8 argument", format!("[{mode}] args()[{i}] = Err for the UTF-8 argument \"{}\"", escape(&want[..want.len().min(80)]))));
                    break;
                }
                Some(s) if s != want => {
                    f.push(Failure::new("env::args|wrong-bytes|argument differs", format!("[{mode}] args()[{i}] = \"{}\" but \"{}\" was passed", escape(&s[..s.len().min(80)]), escape(&want[..want.len().min(80)]))));
                    break;
                }
                _ => {}
            }
        }
        // the same iterators entered through nth / skip / last / count: what a plain slice iterator over the
        // argument vector answers (only judged when the plain walk above was right)
        if f.is_empty() {
            const NONE: u32 = 0xffff_ffff;
            const ERR: u32 = 0xffff_fffd;
            let n = case_argv.len() as u32;
            for &(op, k, got) in &e.iter_ops {
                let os = op < 16;
                let elem = |i: u32| -> u32 {
                    if !os && std::str::from_utf8(&case_argv[i as usize]).is_err() {
                        ERR
                    } else {
                        i
                    }
                };
                let want = match op & 15 {
                    0 => if k < n { elem(k) } else { NONE },
                    1 | 2 => if k < n { elem(n - 1) } else { NONE },
                    3 => n.saturating_sub(k),
                    5 | 6 | 7 | 9 => if k + 1 < n { elem(k + 1) } else { NONE },
                    8 => if 2 * k < n { elem(2 * k) } else { NONE },
                    _ => if n > 0 { elem(n - 1) } else { NONE },
                };
                if got != want {
                    let name = ["nth(k)", "skip(k).last()", "k x next() then last()", "k x next() then count()", "last()", "next() then nth(k)", "k x next() then nth(1)", "next() then skip(k).next()", "step_by(2).nth(k)", "nth(k) then next()"][(op & 15).min(9) as usize];
                    let show = |v: u32| match v {
                        NONE => "None".to_string(),
                        ERR => "Some(Err) (an argument that is not UTF-8)".to_string(),
                        0xffff_fffe => "an element that is not one of the arguments".to_string(),
                        i => format!("{i}"),
                    };
                    let kind = if want == NONE { "element after the end" } else if got == NONE { "element missing" } else { "wrong element" };
                    f.push(Failure::new(format!("env::{}|{name}|{kind}", if os { "args_os" } else { "args" }), format!("[{mode}] {} {name} with k = {k} and {n} arguments: got {}, a slice iterator over the argument vector gives {} (elements by index; count() as a number)", if os { "args_os()" } else { "args()" }, show(got), show(want))));
                    break;
                }
            }
        }
        // aux values against the kernel's own record (/proc/self/auxv as read by the probe)
        let at_uid = aux_value(&e.auxv, AT_UID);
        let at_gid = aux_value(&e.auxv, AT_GID);
        if e.min {
            // nothing the start-up code hands out besides arguments and environment
        } else if e.auxv.is_empty() || e.auxv.len() % 16 != 0 {
            f.push(Failure::new(format!("probe-env|unreadable auxv|{mode}"), format!("[{mode}] /proc/self/auxv gave {} bytes", e.auxv.len())));
        } else {
            if at_uid.map(|v| v as u32 as u64) != Some(e.uid) {
                f.push(Failure::new("aux::get_uid|mismatch|AT_UID", format!("[{mode}] get_uid() = {} but AT_UID = {:?}", e.uid, at_uid)));
            }
            if at_gid.map(|v| v as u32 as u64) != Some(e.gid) {
                f.push(Failure::new("aux::get_gid|mismatch|AT_GID", format!("[{mode}] get_gid() = {} but AT_GID = {:?}", e.gid, at_gid)));
            }
            // what the driver arranged (inherited ids, or setgid/setuid before execve)
            if at_uid == Some(ids.0 as u64) && e.uid != ids.0 as u64 {
                f.push(Failure::new("aux::get_uid|mismatch|real uid", format!("[{mode}] get_uid() = {} but the process runs as uid {}", e.uid, ids.0)));
            }
            if at_gid == Some(ids.1 as u64) && e.gid != ids.1 as u64 {
                f.push(Failure::new("aux::get_gid|mismatch|real gid", format!("[{mode}] get_gid() = {} but the process runs as gid {}", e.gid, ids.1)));
            }
            match (aux_value(&e.auxv, AT_RANDOM), &e.random, &e.random_at) {
                (Some(addr), Some(r), Some(at)) if addr != 0 => {
                    if r != at {
                        f.push(Failure::new("aux::get_random|mismatch|AT_RANDOM bytes", format!("[{mode}] get_random() bytes {:02x?} but the 16 bytes at AT_RANDOM ({addr:#x}) are {:02x?}", r, at)));
                    }
                }
                (Some(addr), None, _) if addr != 0 => {
                    f.push(Failure::new("aux::get_random|mismatch|None although AT_RANDOM present", format!("[{mode}] get_random() = None but AT_RANDOM = {addr:#x}")));
                }
                (None, Some(r), _) => {
                    f.push(Failure::new("aux::get_random|mismatch|Some although AT_RANDOM absent", format!("[{mode}] get_random() = {:02x?} but the aux vector has no AT_RANDOM", r)));
                }
                _ => {}
            }
            match (aux_value(&e.auxv, AT_EXECFN), &e.execfn, &e.execfn_at) {
                (Some(addr), Some(g), Some(at)) if addr != 0 => {
                    if g != at {
                        f.push(Failure::new("aux::get_exec_fn|mismatch|AT_EXECFN string", format!("[{mode}] get_exec_fn() = \"{}\" but the string at AT_EXECFN is \"{}\"", escape(g), escape(at))));
                    } else if g.as_slice() != path.as_bytes() {
                        f.push(Failure::new("aux::get_exec_fn|mismatch|executed path", format!("[{mode}] get_exec_fn() = \"{}\" but \"{}\" was executed", escape(g), path)));
                    }
                }
                (Some(addr), None, _) if addr != 0 => {
                    f.push(Failure::new("aux::get_exec_fn|mismatch|None although AT_EXECFN present", format!("[{mode}] get_exec_fn() = None but AT_EXECFN = {addr:#x}")));
                }
                (None, Some(g), _) => {
                    f.push(Failure::new("aux::get_exec_fn|mismatch|Some although AT_EXECFN absent", format!("[{mode}] get_exec_fn() = \"{}\" but the aux vector has no AT_EXECFN", escape(g))));
                }
                _ => {}
            }
        }
        // static PIE: every relative relocation slot as the start-up code left it
        if let Some(ri) = relocs {
            match &e.peek {
                Some((base, words)) if words.len() == ri.relative.len() => {
                    for ((off, addend), w) in ri.relative.iter().zip(words) {
                        let want = base.wrapping_add(*addend);
                        if *w == want {
                            continue;
                        }
                        // judged: slots in the read-only-after-relocation part and the compiler's DW.ref.* pointers,
                        // which no program writes; other writable slots may have been reassigned legitimately
                        if ri.strict(*off) {
                            f.push(Failure::new(
                                "start::relocate|wrong-slot|relocated slot differs from base + addend",
                                format!("[{mode}] slot at link address {off:#x} (addend {addend:#x}) holds {w:#x}, load base {base:#x}: expected {want:#x}"),
                            ));
                            break;
                        }
                    }
                }
                other => f.push(Failure::new(format!("probe-env|malformed output|{mode}"), format!("[{mode}] {} relocation slots requested, answer: {:?}", ri.relative.len(), other.as_ref().map(|p| p.1.len())))),
            }
        }
        // clocks: (sec, nsec) of syscall, library reading, syscall - three times
        for (k, (what, clock)) in [("MonotonicInstant::now", "CLOCK_MONOTONIC"), ("Instant::now", "CLOCK_MONOTONIC"), ("SystemTime::now", "CLOCK_REALTIME")].iter().enumerate() {
            let t = |i: usize| (e.clock[6 * k + 2 * i], e.clock[6 * k + 2 * i + 1]);
            let (t0, tn, t1) = (t(0), t(1), t(2));
            if !(0..1_000_000_000).contains(&tn.1) {
                f.push(Failure::new(format!("{what}|malformed|nanoseconds out of range"), format!("[{mode}] now() = {tn:?}")));
            } else if tn < t0 {
                f.push(Failure::new(format!("{what}|outside-bracket|earlier than the preceding clock_gettime syscall"), format!("[{mode}] clock_gettime({clock}) {t0:?}, now() {tn:?}, clock_gettime({clock}) {t1:?}{tns}")));
            } else if tn > t1 {
                f.push(Failure::new(format!("{what}|outside-bracket|later than the following clock_gettime syscall"), format!("[{mode}] clock_gettime({clock}) {t0:?}, now() {tn:?}, clock_gettime({clock}) {t1:?}{tns}")));
            }
        }
    }
    // lookups
    if e.lookups.len() != keys.len() || e.lookups.iter().zip(keys).any(|(l, k)| l.0 != *k) {
        f.push(Failure::new(format!("probe-env|malformed output|{mode}"), format!("[{mode}] the probe echoed {} keys for {} sent, or different ones", e.lookups.len(), keys.len())));
        return f;
    }
    let mut look_fails = Vec::new();
    for (k, u, v) in &e.lookups {
        if scope != Scope::Var && !k.contains(&0) {
            judge_lookup("env::var_unix", envp, k, u, false, mode, &mut look_fails);
        }
        if scope != Scope::VarUnix && std::str::from_utf8(k).is_ok() {
            judge_lookup("env::var", envp, k, v, true, mode, &mut look_fails);
        }
    }
    // other lookup failures before the proper-prefix shape
    look_fails.sort_by_key(|x| x.sig == SIG_PREFIX_VAR || x.sig == SIG_PREFIX_VAR_UNIX);
    f.extend(look_fails);
    f
}

fn suppressed(ctx: &Ctx, sig: &str) -> Option<&'static str> {
    if ctx.known.iter().any(|k| k.signature == sig || (k.signature.ends_with('*') && sig.starts_with(&k.signature[..k.signature.len() - 1]))) {
        return Some("known");
    }
    if ctx.stats.borrow().failures.iter().any(|f| f["signature"] == sig) {
        return Some("reported");
    }
    None
}

/// Execute the case on each of its builds and judge it.
pub fn run_case(env: &Env, c: &Case, scope: Scope) -> CaseResult {
    let ctx = env.ctx;
    let argv: Vec<Vec<u8>> = c.argv.iter().map(|a| strip_nul(&a.bytes())).collect();
    let envp: Vec<Vec<u8>> = c.envp.iter().map(|e| strip_nul(&e.0)).collect();
    // (a key with a NUL inside is the shape "entry, terminator, next name" and is taken as it is; anything else is
    // brought into the domain of names: no '=')
    let keys: Vec<Vec<u8>> = c.keys.iter().map(|k| if k.0.contains(&0) { k.0.clone() } else { k.0.iter().copied().filter(|&b| b != b'=').collect::<Vec<u8>>() }).filter(|k: &Vec<u8>| !k.is_empty()).collect();
    let mut rep = CaseReport::new();
    if argv.is_empty() {
        return Ok(rep); // only reachable from a hand-written replay file
    }
    let mut key_records = Vec::new();
    for k in &keys {
        key_records.push(b'K');
        key_records.extend_from_slice(&(k.len() as u32).to_le_bytes());
        key_records.extend_from_slice(k);
    }

    // ---- classes (properties of the input, judged by the model)
    let names: Vec<&[u8]> = envp.iter().filter_map(|e| split_entry(e)).map(|(n, _)| n).collect();
    let mut ext = false;
    let mut pre = false;
    let mut dup = false;
    for k in &keys {
        ext |= names.iter().any(|n| !n.is_empty() && n.len() < k.len() && k.starts_with(n));
        pre |= names.iter().any(|n| n.len() > k.len() && n.starts_with(k));
        dup |= names.iter().filter(|n| **n == k.as_slice()).count() >= 2;
        match model_lookup(&envp, k) {
            Some(v) => {
                rep.class("lookup-hit");
                rep.class_if(v.is_empty(), "empty-value");
                rep.class_if(v.contains(&b'='), "value-with-equals");
                rep.class_if(std::str::from_utf8(v).is_err(), "non-utf8-value");
            }
            None => rep.class("lookup-missing"),
        }
        rep.class_if(std::str::from_utf8(k).is_err(), "non-utf8-key");
        rep.class_if(envp.iter().any(|e| !e.contains(&b'=') && e == k), "key-equals-entry-without-equals");
    }
    rep.class_if(keys.iter().any(|k| k.contains(&0)), "key-spans-two-entries-of-the-block");
    rep.class_if(ext, "key-is-proper-extension-of-a-name");
    rep.class_if(pre, "key-is-proper-prefix-of-a-name");
    rep.class_if(dup, "duplicate-name");
    rep.class_if(envp.iter().any(|e| !e.is_empty() && !e.contains(&b'=')), "entry-without-equals");
    rep.class_if(envp.iter().any(|e| e.is_empty()), "empty-entry");
    rep.class_if(envp.iter().any(|e| e.first() == Some(&b'=')), "entry-with-empty-name");
    rep.class_if(envp.is_empty(), "empty-environment");
    rep.class_if(envp.len() >= 30, "large-environment");
    let non_utf8_arg = argv.iter().any(|a| std::str::from_utf8(a).is_err());
    rep.class_if(non_utf8_arg, "non-utf8-argument");
    rep.class_if(argv.iter().skip(1).any(|a| a.is_empty()), "empty-argument");
    rep.class_if(argv[0].is_empty(), "empty-argv0");
    rep.class_if(argv.iter().any(|a| a.len() >= 65_535), "long-argument");
    rep.class_if(argv.iter().any(|a| a.len() == gen::MAX_ARG as usize), "longest-possible-argument");
    rep.class_if(argv.len() == 1, "argv0-only");
    rep.class_if(argv.len() >= 31, "many-arguments");
    rep.class_if(argv.len() >= 256, "256-or-more-arguments");
    rep.class_if(envp.iter().any(|e| e.len() >= 4096), "environment-entry-of-a-page-or-more");
    rep.nontrivial_if(ext || pre || dup || non_utf8_arg);
    rep.distinct_key = Some(hash_of(&(&c.argv, &c.envp, &c.keys)));

    // ---- execute
    let own = unsafe { (libc::getuid(), libc::getgid()) };
    let set_ids = if env.root { c.ids } else { None };
    let mut run_ids = set_ids.unwrap_or(own);
    rep.class_if(set_ids.is_some(), "runs-as-other-uid-gid");
    rep.class_if(set_ids.is_some() && c.egid.is_some(), "effective-ids-differ-from-real-ids");
    rep.class_if(run_ids.0 != run_ids.1, "uid-differs-from-gid");
    let mut fails: Vec<Failure> = Vec::new();
    let mut done = [false; NB];
    for &b in &c.builds {
        let b = b as usize;
        if b >= NB || done[b] || !env.have[b] {
            continue;
        }
        done[b] = true;
        let mode = MODES[b];
        let path = probe_path(&env.probe_dir, b);
        // self-relocating builds are also asked for the words at their relocation slots
        let relocs = env.relocs[b].as_ref().filter(|r| scope == Scope::All && r.self_relocating && !r.relative.is_empty());
        let mut stdin = key_records.clone();
        if let Some(ri) = relocs {
            stdin.push(b'P');
            stdin.extend_from_slice(&((ri.relative.len() as u32 + 1) * 8).to_le_bytes());
            stdin.extend_from_slice(&ri.phdr_vaddr.to_le_bytes());
            for (off, _) in &ri.relative {
                stdin.extend_from_slice(&off.to_le_bytes());
            }
            rep.class("relocation-slots-inspected");
        }
        let mut timens = if env.timens { c.timens } else { None };
        let mut novdso = env.novdso && c.novdso;
        let mut launched = launch::run(&path, &argv, &envp, &stdin, Duration::from_secs(20), set_ids, if set_ids.is_some() { c.egid } else { None }, timens, novdso);
        if launched.is_err() && (set_ids.is_some() || timens.is_some() || novdso) {
            // e.g. an id that is not mapped in this user namespace: run it with the inherited ids instead
            launched = launch::run(&path, &argv, &envp, &stdin, Duration::from_secs(20), None, None, None, false);
            run_ids = own;
            timens = None;
            novdso = false;
        }
        rep.class_if(novdso, "runs-without-a-vdso-in-its-auxiliary-vector");
        rep.class_if(timens.is_some(), "runs-in-a-time-namespace-with-shifted-clocks");
        let o = match launched {
            Ok(o) => o,
            Err(launch::LaunchError::Spawn(errno, what)) => {
                eprintln!("[C07] {what} of {path} failed with errno {errno}: case skipped");
                ctx.inconclusive();
                continue;
            }
        };
        rep.class(BUILD_CLASS[b]);
        if o.timed_out {
            // a hang is never a violation by itself
            eprintln!("[C07] probe {mode} exceeded the time limit: inconclusive");
            ctx.inconclusive();
            continue;
        }
        let stderr = String::from_utf8_lossy(&o.stderr[..o.stderr.len().min(300)]).into_owned();
        if let Some(sig) = o.signal {
            fails.insert(0, Failure::new(format!("probe-env|probe crashed|{mode}"), format!("[{mode}] probe killed by signal {sig} after {} bytes of output; stderr: {stderr}", o.stdout.len())));
            continue;
        }
        match o.exit {
            Some(0) => {}
            Some(code @ 90..=96) => {
                // the probe's own I/O failed (pipe, /proc): environment, not the property
                eprintln!("[C07] probe {mode} could not do its I/O (exit {code}): inconclusive");
                ctx.inconclusive();
                continue;
            }
            other => {
                fails.insert(0, Failure::new(format!("probe-env|probe crashed|{mode}"), format!("[{mode}] probe exited with {other:?} after {} bytes of output; stderr: {stderr}", o.stdout.len())));
                continue;
            }
        }
        match parse(&o.stdout) {
            Ok(e) => fails.extend(judge(&argv, &envp, &keys, &path, mode, &e, scope, run_ids, relocs, timens)),
            Err(why) => fails.push(Failure::new(format!("probe-env|malformed output|{mode}"), format!("[{mode}] exit 0 but {why}"))),
        }
    }
    // the proper-prefix lookups go last whatever build they came from
    fails.sort_by_key(|x| x.sig == SIG_PREFIX_VAR || x.sig == SIG_PREFIX_VAR_UNIX);

    // In the full sub-check a proper-prefix mismatch that is already on record (known finding, or
    // reported by the focused sub-check of this very run) is counted, not reported again, so
    // that the search continues behind it.
    if scope == Scope::All {
        let mut kept = Vec::new();
        for fl in fails {
            if fl.sig == SIG_PREFIX_VAR || fl.sig == SIG_PREFIX_VAR_UNIX {
                match suppressed(ctx, &fl.sig) {
                    Some("known") => {
                        rep.class("prefix-defect-known");
                        if env.target.borrow().is_none() {
                            let mut st = ctx.stats.borrow_mut();
                            let key = ctx.known.iter().find(|k| k.signature == fl.sig).map(|k| k.signature.clone()).unwrap_or_else(|| fl.sig.clone());
                            *st.known_hits.entry(key).or_insert(0) += 1;
                        }
                        continue;
                    }
                    Some(_) => {
                        rep.class("prefix-defect-already-reported-by-lookup-subcheck");
                        continue;
                    }
                    None => {}
                }
            }
            kept.push(fl);
        }
        fails = kept;
    }

    if fails.is_empty() {
        return Ok(rep);
    }
    let mut target = env.target.borrow_mut();
    match &*target {
        None => {
            let first = fails.swap_remove(0);
            if ctx.known.iter().all(|k| k.signature != first.sig) {
                *target = Some(first.sig.clone());
            }
            Err(first)
        }
        Some(t) => match fails.into_iter().find(|x| &x.sig == t) {
            // shrinking: stay on the failure that was found first
            Some(fl) => Err(fl),
            None => Ok(rep),
        },
    }
}

pub fn run(ctx: &Ctx) {
    let root = vh::runner::verif_root();
    let mut have = [true; NB];
    for b in 0..NB {
        let p = probe_path(&root, b);
        if !std::path::Path::new(&p).exists() {
            if b == 6 {
                // optional build (the linker did not produce it): the other builds decide
                eprintln!("[C07] optional probe build {} is not available", MODES[b]);
                have[b] = false;
                continue;
            }
            eprintln!("[C07] probe binary {p} is missing (run lib/build_probes.py probe-env)");
            std::process::exit(3);
        }
    }
    ctx.extra("probe", serde_json::json!(format!("{root}/probes/env (probe-env), builds: {}", MODES.join(" "))));
    let thorough = ctx.thorough();
    let relocs: [Option<elf::RelocInfo>; NB] = std::array::from_fn(|b| if have[b] { elf::read(&probe_path(&root, b)) } else { None });
    ctx.extra(
        "relocations",
        serde_json::json!(relocs.iter().enumerate().map(|(b, r)| format!("{}: {}", MODES[b], r.as_ref().map(|r| format!("{} relative ({} judged strictly; {}), self-relocating={}", r.relative.len(), r.relative.iter().filter(|(o, _)| r.strict(*o)).count(), if r.rel_format { "REL, implicit addends" } else { "RELA" }, r.self_relocating)).unwrap_or_else(|| "unreadable".into()))).collect::<Vec<_>>()),
    );
    // changing the probe's ids needs root and a probe that other users may execute: try once
    let is_root = unsafe { libc::geteuid() } == 0
        && matches!(launch::run(&probe_path(&root, 3), &[b"probe-env".to_vec()], &[], &[], Duration::from_secs(20), Some((4242, 2424)), Some(777), None, false), Ok(o) if o.exit == Some(0));
    ctx.extra("probe_ids", serde_json::json!(if is_root { "driver is root: 3 cases in 4 run the probe under generated uid/gid (fork+setgid+setuid+execve)" } else { "driver ids inherited (posix_spawn only)" }));

    // a time namespace needs CAP_SYS_ADMIN and a kernel that switches it at execve: try once
    let can_timens = matches!(launch::run(&probe_path(&root, 3), &[b"probe-env".to_vec()], &[], &[], Duration::from_secs(20), None, None, Some((1000, 5000)), false), Ok(o) if o.exit == Some(0));
    let can_novdso = matches!(launch::run(&probe_path(&root, 3), &[b"probe-env".to_vec()], &[], &[], Duration::from_secs(20), None, None, None, true), Ok(o) if o.exit == Some(0));
    ctx.extra("probe_without_vdso", serde_json::json!(if can_novdso { "available: about 1 startup case in 7 starts the probe traced and rewrites AT_SYSINFO_EHDR to AT_IGNORE in its auxiliary vector before it runs" } else { "not available to the driver (ptrace refused)" }));
    ctx.extra("probe_time_namespace", serde_json::json!(if can_timens { "available: about 1 case in 3 of the startup sub-check runs the probe with CLOCK_MONOTONIC and CLOCK_BOOTTIME shifted by two different generated amounts" } else { "not available to the driver (clock brackets only in the initial time namespace, where monotonic and boottime may coincide)" }));

    // focused lookups first: what they report, the full sub-check does not report again
    let env = Env { ctx, probe_dir: root.clone(), root: is_root, timens: can_timens, novdso: can_novdso, relocs: relocs.clone(), have, target: RefCell::new(None) };
    ctx.run_prop_opts("lookup-var", ctx.cases(150, 3000), 600, lookup_case(thorough), |c: &Case| run_case(&env, c, Scope::Var));
    let env = Env { ctx, probe_dir: root.clone(), root: is_root, timens: can_timens, novdso: can_novdso, relocs: relocs.clone(), have, target: RefCell::new(None) };
    ctx.run_prop_opts("lookup-var-unix", ctx.cases(150, 3000), 600, lookup_case(thorough), |c: &Case| run_case(&env, c, Scope::VarUnix));
    let env = Env { ctx, probe_dir: root, root: is_root, timens: can_timens, novdso: can_novdso, relocs: relocs.clone(), have, target: RefCell::new(None) };
    ctx.run_prop_opts("startup", ctx.cases(1200, 20_000), 1500, startup_case(thorough), |c: &Case| run_case(&env, c, Scope::All));
}
