//! Case type and proptest strategies for C07.
use proptest::prelude::*;
use serde::{Deserialize, Serialize};
use vh::runner::pick_idx;
use vh::util::BStr;

/// the last one is optional (static PIE with REL relocations: needs a linker that knows `-z rel`)
pub const MODES: [&str; 9] = ["dyn-debug", "dyn-release", "static-debug", "static-release", "pie-debug", "pie-release", "pierel-debug", "min-debug", "min-release"];
pub const NB: usize = 9;
pub const BUILD_CLASS: [&str; 9] = ["build-dyn-debug", "build-dyn-release", "build-static-debug", "build-static-release", "build-pie-debug", "build-pie-release", "build-pierel-debug", "build-minimal-features-debug", "build-minimal-features-release"];

/// Largest string execve accepts (MAX_ARG_STRLEN = 32 pages includes the terminator).
pub const MAX_ARG: u32 = 131_071;

#[derive(Debug, Clone, Serialize, Deserialize, Hash, PartialEq, Eq)]
pub enum Arg {
    /// literal bytes
    B(BStr),
    /// `unit` cycled up to `len` bytes (keeps 64 KiB arguments readable in replay files)
    Long { unit: BStr, len: u32 },
}

impl Arg {
    pub fn bytes(&self) -> Vec<u8> {
        match self {
            Arg::B(b) => b.0.clone(),
            Arg::Long { unit, len } => {
                let u: Vec<u8> = unit.0.iter().copied().filter(|&c| c != 0).collect();
                let u = if u.is_empty() { vec![b'L'] } else { u };
                u.iter().copied().cycle().take((*len).min(MAX_ARG) as usize).collect()
            }
        }
    }
}

#[derive(Debug, Clone, Serialize, Deserialize)]
pub struct Case {
    /// argv[0] first (always present: an empty argv is replaced by the kernel, not passed on)
    pub argv: Vec<Arg>,
    /// raw environment entries (with or without '=')
    pub envp: Vec<BStr>,
    /// lookup keys: non-empty; no '=' and no NUL, except the keys made to span two entries (entry, NUL, next name)
    pub keys: Vec<BStr>,
    /// indices into MODES
    pub builds: Vec<u8>,
    /// (uid, gid) the probe runs as (only honoured when the driver is root; otherwise inherited ids)
    #[serde(default)]
    pub ids: Option<(u32, u32)>,
    /// with `ids`: the effective gid differs from the real one (and the effective uid is 0), as under
    /// a set-id program - AT_UID/AT_GID (real) then differ from AT_EUID/AT_EGID
    #[serde(default)]
    pub egid: Option<u32>,
    /// the probe runs in a time namespace of its own in which CLOCK_MONOTONIC and CLOCK_BOOTTIME are ahead by
    /// these (different) numbers of seconds (only where the driver may create one)
    #[serde(default)]
    pub timens: Option<(u32, u32)>,
    /// the probe is started without a vDSO in its auxiliary vector (as under a kernel booted with vdso=0): the
    /// clock functions have to take their system-call path (only where the driver may trace the probe)
    #[serde(default)]
    pub novdso: bool,
}

/// Names the environment is built from: several are proper prefixes of others, some are not UTF-8,
/// "\xc3" is a proper *byte* prefix of the UTF-8 name "\xc3\xa9".
pub const POOL: [&[u8]; 20] = [
    b"A", b"AB", b"ABC", b"B", b"HO", b"HOME", b"HOMEDIR", b"PATH", b"PATH_X", b"_", b"X1", b"a", b"ab", b"A B", b"\xc3\xa9", b"\xc3", b"\xff", b"\xffA",
    b"LONG_NAME_0123456789_0123456789", b"LONG_NAME_0123456789_0123456789_X",
];

fn arg_byte() -> impl Strategy<Value = u8> {
    prop_oneof![8 => prop::sample::select(b"AB=/- \x80\xff".to_vec()), 2 => 1u8..=255u8]
}

fn utf8_arg() -> impl Strategy<Value = Vec<u8>> {
    prop::collection::vec(prop::sample::select(vec!['a', 'B', '=', '\u{e9}', '\u{20ac}', '\u{1d11e}']), 1..8).prop_map(|cs| cs.into_iter().collect::<String>().into_bytes())
}

fn arg() -> impl Strategy<Value = Arg> {
    prop_oneof![
        2 => Just(Vec::new()),
        6 => prop::collection::vec(arg_byte(), 1..=8),
        3 => prop::collection::vec(arg_byte(), 9..=300),
        1 => prop::collection::vec(arg_byte(), 300..=300),
        2 => utf8_arg(),
    ]
    .prop_map(|b| Arg::B(BStr(b)))
}

fn long_arg() -> impl Strategy<Value = Arg> {
    let len = prop_oneof![4 => Just(65_536u32), 1 => Just(65_535u32), 1 => Just(65_537u32), 1 => Just(MAX_ARG), 1 => 4096u32..=MAX_ARG];
    (prop::collection::vec(arg_byte(), 1..=3), len).prop_map(|(unit, len)| Arg::Long { unit: BStr(unit), len })
}

fn value_bytes() -> impl Strategy<Value = Vec<u8>> {
    prop_oneof![
        8 => prop::collection::vec(prop_oneof![6 => prop::sample::select(b"ab=/ 01".to_vec()), 1 => prop::sample::select(vec![0x80u8, 0xff, 0xc3]), 1 => 1u8..=255u8], 0..=10),
        2 => utf8_arg(),
        1 => prop::collection::vec(prop::sample::select(b"xy=".to_vec()), 40..=200),
        // long values (pages of text): a length or copy limit inside the lookup shows only here
        1 => (prop::collection::vec(prop::sample::select(b"long-value=/".to_vec()), 1..=7), prop::sample::select(vec![4095usize, 4096, 4097, 6000, 20_000, 70_000])).prop_map(|(unit, n)| unit.iter().cycle().take(n).copied().collect::<Vec<u8>>()),
    ]
}

/// One raw environment entry.
fn entry() -> impl Strategy<Value = Vec<u8>> {
    (any::<u16>(), 0u8..20, value_bytes()).prop_map(|(pick, kind, val)| {
        let name = POOL[pick_idx(pick, POOL.len())];
        let mut e = Vec::new();
        match kind {
            0..=9 => {
                e.extend_from_slice(name);
                e.push(b'=');
                e.extend_from_slice(&val);
            }
            10..=12 => {
                e.extend_from_slice(name);
                e.push(b'=');
            }
            13..=15 => e.extend_from_slice(name), // no '='
            16 => {
                e.push(b'='); // empty name
                e.extend_from_slice(&val);
            }
            17 => {} // empty string
            18 => {
                // name then a value that starts with '='
                e.extend_from_slice(name);
                e.extend_from_slice(b"==");
                e.extend_from_slice(&val);
            }
            _ => e.extend_from_slice(&val), // raw bytes, may or may not contain '='
        }
        e
    })
}

#[derive(Debug, Clone)]
struct KeySpec {
    from_env: bool,
    pick: u16,
    kind: u8,
    cut: u16,
    ext: Vec<u8>,
}

fn key_spec() -> impl Strategy<Value = KeySpec> {
    (any::<bool>(), any::<u16>(), 0u8..13, any::<u16>(), prop::collection::vec(prop::sample::select(b"ABDIR_1x \xff\xa9".to_vec()), 1..=3))
        .prop_map(|(from_env, pick, kind, cut, ext)| KeySpec { from_env, pick, kind, cut, ext })
}

const ABSENT: [&[u8]; 4] = [b"ZZ", b"Q", b"absent", b"\xfe"];

fn resolve_key(spec: &KeySpec, envp: &[Vec<u8>]) -> Vec<u8> {
    // kind 12: a key that spans two entries as they lie in memory - a whole entry, its terminator, the name of
    // the entry behind it (the strings of the environment block are laid out back to back, in order). No name
    // can equal a key with a NUL inside: the lookup must report it missing.
    if spec.kind == 12 && envp.len() >= 2 {
        let i = pick_idx(spec.pick, envp.len() - 1);
        let next = &envp[i + 1];
        let next_name = match next.iter().position(|&c| c == b'=') {
            Some(p) => &next[..p],
            None => &next[..],
        };
        if !envp[i].is_empty() && !next_name.is_empty() {
            let mut k = envp[i].clone();
            k.push(0);
            k.extend_from_slice(next_name);
            return k;
        }
    }
    // base name: from the pool, or the name (bytes before the first '=', or the whole entry) of an entry of this case
    let base: Vec<u8> = if spec.from_env && !envp.is_empty() {
        let e = &envp[pick_idx(spec.pick, envp.len())];
        match e.iter().position(|&c| c == b'=') {
            Some(p) => e[..p].to_vec(),
            None => e.clone(),
        }
    } else {
        POOL[pick_idx(spec.pick, POOL.len())].to_vec()
    };
    let mut k = match spec.kind {
        0..=4 => base,
        5..=7 => {
            let mut b = base;
            b.extend_from_slice(&spec.ext);
            b
        }
        8..=9 => {
            if base.len() >= 2 {
                base[..1 + pick_idx(spec.cut, base.len() - 1)].to_vec()
            } else {
                base
            }
        }
        _ => ABSENT[pick_idx(spec.cut, ABSENT.len())].to_vec(),
    };
    k.retain(|&c| c != b'=' && c != 0);
    if k.is_empty() {
        k.push(b'A');
    }
    k
}

fn builds(thorough: bool, quick_n: usize) -> BoxedStrategy<Vec<u8>> {
    if thorough {
        Just((0u8..9).collect::<Vec<u8>>()).boxed()
    } else {
        prop::sample::subsequence((0u8..9).collect::<Vec<u8>>(), quick_n).boxed()
    }
}

/// Full start-up case.
pub fn startup_case(thorough: bool) -> impl Strategy<Value = Case> {
    // (no prop_flat_map: unions of vec strategies shrink towards their first, smallest alternative)
    // short_arg: many arguments are made of short ones (the total stays far below ARG_MAX)
    let short_arg = prop::collection::vec(arg_byte(), 0..=3).prop_map(|b| Arg::B(BStr(b)));
    let rest = prop_oneof![
        4 => prop::collection::vec(arg(), 0..=0),
        12 => prop::collection::vec(arg(), 1..=6),
        6 => prop::collection::vec(arg(), 7..=40),
        2 => prop::collection::vec(arg(), 40..=40),
        // hundreds of arguments: counts beyond one byte (255/256/257) and well beyond
        1 => (prop::sample::select(vec![254usize, 255, 256, 257, 300, 1000]), prop::collection::vec(short_arg, 8)).prop_map(|(n, pool)| (0..n).map(|i| pool[(i * 7 + i / 8) % pool.len()].clone()).collect::<Vec<Arg>>()),
    ];
    let argv = (arg(), rest, prop_oneof![12 => Just(None), 1 => (long_arg(), any::<u16>()).prop_map(Some)]).prop_map(
        |(a0, mut rest, long)| {
            if let Some((l, pos)) = long {
                let at = pick_idx(pos, rest.len() + 1);
                if rest.len() >= 40 {
                    rest.pop();
                }
                rest.insert(at.min(rest.len()), l);
            }
            let mut v = vec![a0];
            v.extend(rest);
            v
        },
    );
    let envp = prop_oneof![1 => prop::collection::vec(entry(), 0..=0), 6 => prop::collection::vec(entry(), 1..=8), 3 => prop::collection::vec(entry(), 9..=40)];
    let ids = prop_oneof![1 => Just(None), 2 => (1000u32..70_000, 1000u32..70_000).prop_map(Some), 1 => (any::<u32>(), any::<u32>()).prop_map(|(u, g)| Some((u.clamp(1, u32::MAX - 2), g.clamp(1, u32::MAX - 2))))];
    (argv, envp, prop::collection::vec(key_spec(), 1..=8), builds(thorough, 3), ids, prop::option::weighted(0.5, 100u32..60_000), prop::option::weighted(0.35, (1u32..2_000_000, 1u32..2_000_000)), prop::bool::weighted(0.15)).prop_map(|(argv, envp, specs, builds, ids, egid, timens, novdso)| {
        let keys = specs.iter().map(|s| BStr(resolve_key(s, &envp))).collect();
        let egid = match (ids, egid) {
            (Some((_, g)), Some(e)) => Some(if e == g { e + 1 } else { e }),
            _ => None,
        };
        let timens = timens.map(|(m, b)| if m == b { (m, b + 977) } else { (m, b) });
        Case { argv, envp: envp.into_iter().map(BStr).collect(), keys, builds, ids, egid, timens, novdso }
    })
}

/// Small case aimed at the lookup functions: few entries, keys derived from them.
pub fn lookup_case(thorough: bool) -> impl Strategy<Value = Case> {
    let envp = prop::collection::vec(entry(), 1..=5);
    (envp, prop::collection::vec(key_spec(), 1..=3), builds(thorough, 1)).prop_map(|(envp, mut specs, builds)| {
        for s in specs.iter_mut() {
            s.from_env = true;
            if s.kind >= 10 && s.kind != 12 {
                s.kind = 5; // absent names are the other sub-check's business: extend instead
            }
        }
        let keys = specs.iter().map(|s| BStr(resolve_key(s, &envp))).collect();
        Case { argv: vec![Arg::B(BStr(b"probe-env".to_vec()))], envp: envp.into_iter().map(BStr).collect(), keys, builds, ids: None, egid: None, timens: None, novdso: false }
    })
}
