//! Just enough ELF64 reading to list the R_X86_64_RELATIVE relocations of a static-PIE probe.

#[derive(Debug, Clone, Default)]
pub struct RelocInfo {
    /// link-time address of the program header table (what AT_PHDR minus the load base equals)
    pub phdr_vaddr: u64,
    /// PT_GNU_RELRO range [start, end): never written after start-up
    pub relro: Option<(u64, u64)>,
    /// (r_offset, r_addend) of every relative relocation
    pub relative: Vec<(u64, u64)>,
    /// ET_DYN without PT_INTERP: relocated by tiny-start itself
    pub self_relocating: bool,
    /// the relative relocations come from a DT_REL table (addend = the word stored at the slot in the file)
    pub rel_format: bool,
    /// addresses of the compiler-generated `DW.ref.*` pointers (writable section, never written by any program)
    pub never_written: Vec<u64>,
}

impl RelocInfo {
    /// May the slot at link address `off` be compared strictly with base + addend?
    pub fn strict(&self, off: u64) -> bool {
        self.relro.map(|(a, b)| off >= a && off + 8 <= b).unwrap_or(false) || self.never_written.contains(&off)
    }
}

fn u16at(b: &[u8], o: usize) -> Option<u64> {
    Some(u16::from_le_bytes(b.get(o..o + 2)?.try_into().ok()?) as u64)
}
fn u32at(b: &[u8], o: usize) -> Option<u64> {
    Some(u32::from_le_bytes(b.get(o..o + 4)?.try_into().ok()?) as u64)
}
fn u64at(b: &[u8], o: usize) -> Option<u64> {
    Some(u64::from_le_bytes(b.get(o..o + 8)?.try_into().ok()?))
}

pub fn read(path: &str) -> Option<RelocInfo> {
    let b = std::fs::read(path).ok()?;
    if b.get(..4)? != b"\x7fELF" || *b.get(4)? != 2 {
        return None;
    }
    let e_type = u16at(&b, 16)?;
    let phoff = u64at(&b, 32)? as usize;
    let phentsize = u16at(&b, 54)? as usize;
    let phnum = u16at(&b, 56)? as usize;
    let mut loads: Vec<(u64, u64, u64)> = Vec::new(); // vaddr, offset, filesz
    let mut info = RelocInfo { phdr_vaddr: phoff as u64, ..Default::default() };
    let mut interp = false;
    let mut dynamic: Option<(u64, u64)> = None;
    for i in 0..phnum {
        let p = phoff + i * phentsize;
        let (ty, off, va, fsz, msz) = (u32at(&b, p)?, u64at(&b, p + 8)?, u64at(&b, p + 16)?, u64at(&b, p + 32)?, u64at(&b, p + 40)?);
        match ty {
            1 => loads.push((va, off, fsz)),
            2 => dynamic = Some((off, fsz)),
            3 => interp = true,
            6 => info.phdr_vaddr = va,
            0x6474_e552 => info.relro = Some((va, va + msz)),
            _ => {}
        }
    }
    info.self_relocating = e_type == 3 && !interp;
    let to_off = |va: u64| loads.iter().find(|(v, _, f)| va >= *v && va < v + f).map(|(v, o, _)| (va - v + o) as usize);
    if let Some((doff, dsz)) = dynamic {
        let (mut rela, mut relasz, mut relaent) = (0u64, 0u64, 24u64);
        let (mut rel, mut relsz, mut relent) = (0u64, 0u64, 16u64);
        let mut i = doff as usize;
        while i + 16 <= (doff + dsz) as usize {
            let (tag, val) = (u64at(&b, i)?, u64at(&b, i + 8)?);
            match tag {
                0 => break,
                7 => rela = val,
                8 => relasz = val,
                9 => relaent = val,
                17 => rel = val,
                18 => relsz = val,
                19 => relent = val,
                _ => {}
            }
            i += 16;
        }
        if rela != 0 && relaent >= 24 {
            let start = to_off(rela)?;
            for k in 0..(relasz / relaent) as usize {
                let p = start + k * relaent as usize;
                let (r_offset, r_info, r_addend) = (u64at(&b, p)?, u64at(&b, p + 8)?, u64at(&b, p + 16)?);
                if r_info & 0xffff_ffff == 8 {
                    info.relative.push((r_offset, r_addend));
                }
            }
        }
        if rel != 0 && relent >= 16 {
            let start = to_off(rel)?;
            for k in 0..(relsz / relent) as usize {
                let p = start + k * relent as usize;
                let (r_offset, r_info) = (u64at(&b, p)?, u64at(&b, p + 8)?);
                if r_info & 0xffff_ffff == 8 {
                    // implicit addend: what the link editor stored at the slot
                    let addend = u64at(&b, to_off(r_offset)?)?;
                    info.relative.push((r_offset, addend));
                    info.rel_format = true;
                }
            }
        }
    }
    // .symtab (when present): DW.ref.* objects
    let (shoff, shentsize, shnum) = (u64at(&b, 40)? as usize, u16at(&b, 58)? as usize, u16at(&b, 60)? as usize);
    for i in 0..shnum {
        let sh = shoff + i * shentsize;
        if u32at(&b, sh + 4) != Some(2) {
            continue;
        }
        let (off, size, link, entsize) = (u64at(&b, sh + 24)? as usize, u64at(&b, sh + 32)? as usize, u32at(&b, sh + 40)? as usize, u64at(&b, sh + 56)? as usize);
        let strsh = shoff + link * shentsize;
        let stroff = u64at(&b, strsh + 24)? as usize;
        if entsize < 24 {
            continue;
        }
        for k in 0..size / entsize {
            let sy = off + k * entsize;
            let (name, value) = (u32at(&b, sy)? as usize, u64at(&b, sy + 8)?);
            let n = b.get(stroff + name..)?;
            if n.starts_with(b"DW.ref.") {
                info.never_written.push(value);
            }
        }
    }
    Some(info)
}
