//! Launching a no-libc probe with raw argv/envp arrays (posix_spawn) and talking to it over pipes.
use std::ffi::CString;
use std::time::{Duration, Instant};

pub struct Outcome {
    pub stdout: Vec<u8>,
    pub stderr: Vec<u8>,
    /// Some(code) on normal exit
    pub exit: Option<i32>,
    /// Some(signal) when killed
    pub signal: Option<i32>,
    /// the watchdog had to kill it
    pub timed_out: bool,
}

#[derive(Debug)]
pub enum LaunchError {
    /// posix_spawn / pipe failed in the driver (E2BIG, EMFILE, ...): never a property violation
    Spawn(i32, &'static str),
}

fn pipe2() -> Result<(i32, i32), LaunchError> {
    let mut fds = [0i32; 2];
    let rc = unsafe { libc::pipe2(fds.as_mut_ptr(), libc::O_CLOEXEC) };
    if rc != 0 {
        return Err(LaunchError::Spawn(std::io::Error::last_os_error().raw_os_error().unwrap_or(0), "pipe2"));
    }
    Ok((fds[0], fds[1]))
}

/// The traced child sits in its exec stop. Walk its initial stack (argc, argv.., NULL, envp.., NULL, auxv pairs) and
/// overwrite the key of the AT_SYSINFO_EHDR entry with AT_IGNORE; then detach. Err(errno) when anything is not as
/// expected (the caller then runs the case without this).
unsafe fn hide_vdso(child: libc::pid_t) -> Result<(), i32> {
    let errno = || *libc::__errno_location();
    let mut status = 0;
    if libc::waitpid(child, &mut status, 0) != child || !libc::WIFSTOPPED(status) {
        return Err(libc::ECHILD);
    }
    let mut regs: libc::user_regs_struct = core::mem::zeroed();
    if libc::ptrace(libc::PTRACE_GETREGS, child, 0, &mut regs as *mut libc::user_regs_struct) != 0 {
        return Err(errno());
    }
    let peek = |addr: u64| -> Result<u64, i32> {
        *libc::__errno_location() = 0;
        let v = libc::ptrace(libc::PTRACE_PEEKDATA, child, addr as *mut libc::c_void, 0);
        if v == -1 && errno() != 0 {
            Err(errno())
        } else {
            Ok(v as u64)
        }
    };
    let mut p = regs.rsp;
    let argc = peek(p)?;
    p += 8 * (argc + 2); // argc, argv[0..argc], NULL
    let mut guard = 0;
    while peek(p)? != 0 {
        p += 8;
        guard += 1;
        if guard > 1_000_000 {
            return Err(libc::E2BIG);
        }
    }
    p += 8; // envp's NULL
    let mut found = false;
    for _ in 0..64 {
        let key = peek(p)?;
        if key == 0 {
            break;
        }
        if key == 33 {
            if libc::ptrace(libc::PTRACE_POKEDATA, child, p as *mut libc::c_void, 1usize) != 0 {
                return Err(errno());
            }
            found = true;
        }
        p += 16;
    }
    if libc::ptrace(libc::PTRACE_DETACH, child, 0, 0) != 0 {
        return Err(errno());
    }
    if found {
        Ok(())
    } else {
        Err(libc::ENOENT)
    }
}

fn set_nonblock(fd: i32) {
    unsafe {
        let fl = libc::fcntl(fd, libc::F_GETFL);
        libc::fcntl(fd, libc::F_SETFL, fl | libc::O_NONBLOCK);
    }
}

/// Run `path` with exactly the given argv and envp byte strings (no NUL inside; anything else goes),
/// feed `stdin` and collect stdout/stderr until both are closed, then reap.
///
/// `ids = Some((uid, gid))` (only meaningful when the driver is root): the probe is started by
/// fork + setgid + setuid + execve instead of posix_spawn, so that AT_UID and AT_GID are two
/// different non-zero numbers. With `egid` the effective ids differ from the real ones as well.
pub fn run(path: &str, argv: &[Vec<u8>], envp: &[Vec<u8>], stdin: &[u8], limit: Duration, ids: Option<(u32, u32)>, egid: Option<u32>, timens: Option<(u32, u32)>, novdso: bool) -> Result<Outcome, LaunchError> {
    let cpath = CString::new(path).expect("probe path");
    let cargs: Vec<CString> = argv.iter().map(|a| CString::new(a.clone()).expect("NUL in argument")).collect();
    let cenv: Vec<CString> = envp.iter().map(|a| CString::new(a.clone()).expect("NUL in env entry")).collect();
    let mut pargs: Vec<*mut libc::c_char> = cargs.iter().map(|c| c.as_ptr() as *mut libc::c_char).collect();
    pargs.push(core::ptr::null_mut());
    let mut penv: Vec<*mut libc::c_char> = cenv.iter().map(|c| c.as_ptr() as *mut libc::c_char).collect();
    penv.push(core::ptr::null_mut());

    let (in_r, in_w) = pipe2()?;
    let (out_r, out_w) = pipe2().inspect_err(|_| close_all(&[in_r, in_w]))?;
    let (err_r, err_w) = pipe2().inspect_err(|_| close_all(&[in_r, in_w, out_r, out_w]))?;

    let mut pid: libc::pid_t = 0;
    let rc = if ids.is_some() || timens.is_some() || novdso {
        // exec failures travel back over a close-on-exec pipe
        let (st_r, st_w) = pipe2().inspect_err(|_| close_all(&[in_r, in_w, out_r, out_w, err_r, err_w]))?;
        let child = unsafe { libc::fork() };
        if child == 0 {
            // child: async-signal-safe calls only
            unsafe {
                let mut e = 0i32;
                libc::signal(libc::SIGPIPE, libc::SIG_DFL);
                if libc::dup2(in_r, 0) < 0 || libc::dup2(out_w, 1) < 0 || libc::dup2(err_w, 2) < 0 {
                    e = *libc::__errno_location();
                }
                if let Some((mono, boot)) = timens {
                    // a time namespace of its own, entered at the execve below: CLOCK_MONOTONIC and CLOCK_BOOTTIME
                    // shifted by two different amounts (the vDSO data page of the new program shows the shifted clocks)
                    if e == 0 && libc::unshare(0x80) != 0 {
                        e = *libc::__errno_location();
                    }
                    if e == 0 {
                        let fd = libc::open(b"/proc/self/timens_offsets\0".as_ptr().cast(), libc::O_WRONLY);
                        if fd < 0 {
                            e = *libc::__errno_location();
                        } else {
                            for (name, v) in [(&b"monotonic "[..], mono), (&b"boottime "[..], boot)] {
                                let mut line = [0u8; 40];
                                let mut n = 0;
                                for &c in name {
                                    line[n] = c;
                                    n += 1;
                                }
                                let mut digits = [0u8; 12];
                                let (mut k, mut x) = (0, v);
                                loop {
                                    digits[k] = b'0' + (x % 10) as u8;
                                    k += 1;
                                    x /= 10;
                                    if x == 0 {
                                        break;
                                    }
                                }
                                while k > 0 {
                                    k -= 1;
                                    line[n] = digits[k];
                                    n += 1;
                                }
                                for &c in b" 0\n" {
                                    line[n] = c;
                                    n += 1;
                                }
                                if e == 0 && libc::write(fd, line.as_ptr().cast(), n) != n as isize {
                                    e = *libc::__errno_location();
                                }
                            }
                            libc::close(fd);
                        }
                    }
                }
                let (uid, gid) = ids.unwrap_or((0, 0));
                if ids.is_none() {
                } else if let Some(egid) = egid {
                    // real ids differ from the effective ones (as under a set-id program): real uid/gid
                    // as generated, effective gid another number, effective uid stays 0 so that the
                    // probe can still read its own /proc/self/auxv
                    if e == 0 && (libc::setgroups(0, core::ptr::null()) != 0 || libc::setresgid(gid, egid, egid) != 0 || libc::setresuid(uid, 0, 0) != 0) {
                        e = *libc::__errno_location();
                    }
                } else if e == 0 && (libc::setgroups(0, core::ptr::null()) != 0 || libc::setgid(gid) != 0 || libc::setuid(uid) != 0) {
                    e = *libc::__errno_location();
                }
                if e == 0 && novdso && libc::ptrace(libc::PTRACE_TRACEME, 0, 0, 0) != 0 {
                    e = *libc::__errno_location();
                }
                if e == 0 {
                    libc::execve(cpath.as_ptr(), pargs.as_ptr() as *const *const libc::c_char, penv.as_ptr() as *const *const libc::c_char);
                    e = *libc::__errno_location();
                }
                let b = e.to_le_bytes();
                libc::write(st_w, b.as_ptr() as *const libc::c_void, 4);
                libc::_exit(127);
            }
        }
        close_all(&[st_w]);
        let mut rc = 0;
        if child < 0 {
            rc = std::io::Error::last_os_error().raw_os_error().unwrap_or(libc::EAGAIN);
        } else {
            pid = child;
            let mut b = [0u8; 4];
            let n = loop {
                let n = unsafe { libc::read(st_r, b.as_mut_ptr() as *mut libc::c_void, 4) };
                if n >= 0 || std::io::Error::last_os_error().raw_os_error() != Some(libc::EINTR) {
                    break n;
                }
            };
            if n == 4 {
                rc = i32::from_le_bytes(b).max(1);
                let mut status = 0;
                unsafe { libc::waitpid(child, &mut status, 0) };
            } else if novdso {
                // the new program is stopped at its first instruction: take the vDSO out of its auxiliary vector
                // (AT_SYSINFO_EHDR -> AT_IGNORE, what a kernel booted with vdso=0 hands out), then let it run
                if let Err(e) = unsafe { hide_vdso(child) } {
                    unsafe {
                        libc::kill(child, libc::SIGKILL);
                        let mut status = 0;
                        libc::waitpid(child, &mut status, 0);
                    }
                    rc = e.max(1);
                }
            }
        }
        close_all(&[st_r]);
        rc
    } else {
        unsafe {
            let mut fa: libc::posix_spawn_file_actions_t = core::mem::zeroed();
            libc::posix_spawn_file_actions_init(&mut fa);
            // dup2 clears O_CLOEXEC on the target; the pipe ends themselves close on exec
            libc::posix_spawn_file_actions_adddup2(&mut fa, in_r, 0);
            libc::posix_spawn_file_actions_adddup2(&mut fa, out_w, 1);
            libc::posix_spawn_file_actions_adddup2(&mut fa, err_w, 2);
            let mut at: libc::posix_spawnattr_t = core::mem::zeroed();
            libc::posix_spawnattr_init(&mut at);
            // the Rust runtime ignores SIGPIPE and that disposition would be inherited
            let mut def: libc::sigset_t = core::mem::zeroed();
            libc::sigemptyset(&mut def);
            libc::sigaddset(&mut def, libc::SIGPIPE);
            libc::posix_spawnattr_setsigdefault(&mut at, &def);
            libc::posix_spawnattr_setflags(&mut at, libc::POSIX_SPAWN_SETSIGDEF as libc::c_short);
            let rc = libc::posix_spawn(&mut pid, cpath.as_ptr(), &fa, &at, pargs.as_ptr(), penv.as_ptr());
            libc::posix_spawn_file_actions_destroy(&mut fa);
            libc::posix_spawnattr_destroy(&mut at);
            rc
        }
    };
    close_all(&[in_r, out_w, err_w]);
    if rc != 0 {
        close_all(&[in_w, out_r, err_r]);
        return Err(LaunchError::Spawn(rc, if novdso { "fork+PTRACE_TRACEME+execve (auxv rewritten)" } else if timens.is_some() { "fork+unshare(CLONE_NEWTIME)+execve" } else if ids.is_some() { "fork+setgid+setuid+execve" } else { "posix_spawn" }));
    }

    set_nonblock(in_w);
    set_nonblock(out_r);
    set_nonblock(err_r);
    let mut out = Vec::new();
    let mut err = Vec::new();
    let mut sent = 0usize;
    let mut in_open = true;
    let (mut out_open, mut err_open) = (true, true);
    if stdin.is_empty() {
        close_all(&[in_w]);
        in_open = false;
    }
    let start = Instant::now();
    let mut timed_out = false;
    let mut buf = vec![0u8; 1 << 16];
    while out_open || err_open {
        let left = limit.saturating_sub(start.elapsed());
        if left.is_zero() {
            timed_out = true;
            unsafe { libc::kill(pid, libc::SIGKILL) };
            break;
        }
        let mut pfds = [
            libc::pollfd { fd: if out_open { out_r } else { -1 }, events: libc::POLLIN, revents: 0 },
            libc::pollfd { fd: if err_open { err_r } else { -1 }, events: libc::POLLIN, revents: 0 },
            libc::pollfd { fd: if in_open { in_w } else { -1 }, events: libc::POLLOUT, revents: 0 },
        ];
        let n = unsafe { libc::poll(pfds.as_mut_ptr(), 3, left.as_millis().min(1000) as i32) };
        if n < 0 {
            continue; // EINTR
        }
        if in_open && pfds[2].revents != 0 {
            let w = unsafe { libc::write(in_w, stdin[sent..].as_ptr() as *const libc::c_void, stdin.len() - sent) };
            if w > 0 {
                sent += w as usize;
            }
            let gone = w < 0 && std::io::Error::last_os_error().raw_os_error() != Some(libc::EAGAIN);
            if sent == stdin.len() || gone {
                close_all(&[in_w]);
                in_open = false;
            }
        }
        for (i, (fd, open, sink)) in [(out_r, &mut out_open, &mut out), (err_r, &mut err_open, &mut err)].into_iter().enumerate() {
            if *open && pfds[i].revents != 0 {
                let r = unsafe { libc::read(fd, buf.as_mut_ptr() as *mut libc::c_void, buf.len()) };
                if r > 0 {
                    sink.extend_from_slice(&buf[..r as usize]);
                } else if r == 0 || std::io::Error::last_os_error().raw_os_error() != Some(libc::EAGAIN) {
                    *open = false;
                }
            }
        }
    }
    if in_open {
        close_all(&[in_w]);
    }
    close_all(&[out_r, err_r]);
    let mut status = 0i32;
    loop {
        let r = unsafe { libc::waitpid(pid, &mut status, 0) };
        if r == pid || (r < 0 && std::io::Error::last_os_error().raw_os_error() != Some(libc::EINTR)) {
            break;
        }
    }
    let (exit, signal) = if libc::WIFEXITED(status) {
        (Some(libc::WEXITSTATUS(status)), None)
    } else if libc::WIFSIGNALED(status) {
        (None, Some(libc::WTERMSIG(status)))
    } else {
        (None, None)
    };
    Ok(Outcome { stdout: out, stderr: err, exit, signal, timed_out })
}

fn close_all(fds: &[i32]) {
    for &fd in fds {
        unsafe { libc::close(fd) };
    }
}
