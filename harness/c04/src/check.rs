//! C04 — memory held from the OS is bounded by peak demand, not by history length.
//!
//! Workload W (sizes/alignments, allocation order, interleaved frees, final free order) is
//! repeated R times on one allocator. `held` = bytes mapped - bytes unmapped by the allocator's
//! own MMAP/MREMAP/MUNMAP calls (exact counters of the sc interposer), sampled after every
//! allocation. Deciding inequality, for every round i:
//!     peakheld_i <= 4 * (round_total(W) + 1 MiB)
//! The right-hand side does not depend on R: a loss of l bytes per round makes peakheld grow
//! like R*l and cross it. R is chosen per workload so that even a loss of one smallest chunk
//! per round would cross the bound within the run.
use std::collections::BTreeMap;
use std::sync::atomic::Ordering;

use proptest::prelude::*;
use serde::{Deserialize, Serialize};
use tiny_std::allocator::dlmalloc::Dlmalloc;

use vh::runner::{no_panic, CaseReport, CaseResult, Ctx, Failure};

#[derive(Debug, Clone, Serialize, Deserialize)]
pub struct Workload {
    /// (size, log2 alignment) in allocation order
    pub blocks: Vec<(usize, u8)>,
    /// after allocating block j, free the blocks listed (indices < = j) — interleaved frees
    pub early_free: Vec<(u16, u16)>,
    /// seed of the final free order permutation
    pub free_seed: u64,
    /// 0 = forward, 1 = reverse, 2 = seeded shuffle
    pub free_mode: u8,
    /// placement of the allocator's mmaps, a repeating pattern of interposer hint modes:
    /// 0 kernel default (usually adjacent), 1 directly above, 2 directly below the previous
    /// mapping, 3 non-contiguous (8 MiB hole) - what foreign mappings next to a heap cause, 4 directly
    /// above what is still mapped of the run the previous mapping belongs to (after a trim the new
    /// mapping lands exactly at the end of the top segment: the "extend the top segment" path)
    #[serde(default)]
    pub placement: Vec<u8>,
    /// once all blocks of the round are allocated: realloc block (index % n) to this size (0 is
    /// taken as 1), in list order; a block may be resized several times
    #[serde(default)]
    pub resize: Vec<(u16, usize)>,
    /// bit (j % 64): block j is obtained with calloc instead of malloc
    #[serde(default)]
    pub zeroed: u64,
    /// long-lived blocks (size, position): before the first round one extra pass allocates the round's
    /// blocks with their sizes scaled to `setup_scale` percent and, after block (position % n), this
    /// block; the pass's own blocks are then freed, the long-lived ones stay until the end. The rounds
    /// thus run on a heap whose free space is cut into holes by allocations that never go away.
    #[serde(default)]
    pub keep: Vec<(u16, u16)>,
    #[serde(default)]
    pub setup_scale: u8,
    /// when not empty: the sizes of the set-up pass, instead of the round's blocks scaled (positions of
    /// `keep` then count in this list) - holes whose sizes are unrelated to the round's requests
    #[serde(default)]
    pub setup_blocks: Vec<usize>,
    /// every mremap the allocator issues is refused (ENOSYS, what a seccomp filter without mremap answers): giving
    /// back the tail of a segment and resizing a directly mapped block then go their munmap / copy ways
    #[serde(default)]
    pub deny_mremap: bool,
}

const MIB: usize = 1 << 20;

fn held() -> usize {
    sc::verif::MAPPED.load(Ordering::Relaxed).wrapping_sub(sc::verif::UNMAPPED.load(Ordering::Relaxed))
}

/// Demand of one round: every block, plus every size a block is resized to (a realloc may hold
/// the old and the new block at the same time).
pub fn round_total(w: &Workload) -> usize {
    w.blocks.iter().map(|b| b.0).sum::<usize>() + w.resize.iter().map(|r| r.1.max(1)).sum::<usize>()
}

/// What the long-lived blocks and the holes of the set-up pass add to the demand.
pub fn setup_total(w: &Workload) -> usize {
    if w.keep.is_empty() {
        return 0;
    }
    let scale = w.setup_scale.clamp(25, 200) as usize;
    let holes: usize = if w.setup_blocks.is_empty() { w.blocks.iter().map(|b| (b.0 * scale / 100).max(1)).sum() } else { w.setup_blocks.iter().map(|b| (*b).max(1)).sum() };
    w.keep.iter().map(|k| k.0.max(1) as usize).sum::<usize>() + holes
}

pub fn bound(w: &Workload) -> usize {
    4 * (round_total(w) + setup_total(w) + MIB)
}

/// Rounds needed so that losing one smallest chunk per round crosses the bound.
pub fn rounds_for_full_sensitivity(w: &Workload) -> u64 {
    // smallest conceivable loss per round: one smallest block, but never more than one
    // 64 KiB granule (a stranded segment stub), whatever the block sizes are
    let mut smallest = w.blocks.iter().map(|b| b.0).min().unwrap_or(1).min(64 << 10);
    // a resize can strand as little as the difference between the two sizes (>= one chunk)
    let n = w.blocks.len().max(1);
    let mut cur: Vec<usize> = w.blocks.iter().map(|b| b.0).collect();
    for &(k, new) in &w.resize {
        let k = k as usize % n;
        if let Some(c) = cur.get_mut(k) {
            let new = new.max(1);
            let d = c.abs_diff(new);
            if d >= 32 {
                smallest = smallest.min(d);
            }
            smallest = smallest.min(new);
            *c = new;
        }
    }
    // an over-aligned request can strand the chunk cut off in front of the aligned address
    // (at least one minimal chunk)
    if w.blocks.iter().any(|b| b.1 > 4) {
        smallest = smallest.min(32);
    }
    let smallest = smallest.max(16);
    (2 * bound(w) as u64) / (smallest as u64 + 16) + 2
}

fn free_order(w: &Workload) -> Vec<usize> {
    let n = w.blocks.len();
    let mut v: Vec<usize> = (0..n).collect();
    match w.free_mode {
        0 => {}
        1 => v.reverse(),
        _ => {
            let mut s = w.free_seed;
            for i in (1..n).rev() {
                s = vh::runner::splitmix(s);
                v.swap(i, (s % (i as u64 + 1)) as usize);
            }
        }
    }
    v
}

pub struct RunStats {
    pub rounds: u64,
    pub full_sensitivity: bool,
    pub max_ratio_to_round_total: f64,
    pub max_peak: usize,
    pub ops: u64,
}

/// Runs the workload; returns Err on a bound violation.
pub fn run_workload(w: &Workload, op_budget: u64) -> Result<RunStats, Failure> {
    let n = w.blocks.len();
    let ops_per_round = (2 * n + w.resize.len()) as u64;
    let want = rounds_for_full_sensitivity(w);
    // rounds are also bounded by the bytes a round copies or clears (realloc moves, calloc)
    let mut work: u64 = 0;
    {
        let mut cur: Vec<usize> = w.blocks.iter().map(|b| b.0).collect();
        for (j, b) in w.blocks.iter().enumerate() {
            if w.zeroed >> (j % 64) & 1 == 1 {
                work += b.0 as u64;
            }
        }
        for &(k, new) in &w.resize {
            let k = k as usize % n.max(1);
            work += cur[k].min(new.max(1)) as u64;
            cur[k] = new.max(1);
        }
    }
    let byte_cap = (op_budget * 400) / work.max(1);
    let cap = (op_budget / ops_per_round.max(1)).min(byte_cap).max(8);
    let rounds = want.min(cap);
    let full = rounds >= want;
    let b = bound(w);
    let order = free_order(w);
    let mut early: BTreeMap<usize, Vec<usize>> = BTreeMap::new();
    for &(after, which) in &w.early_free {
        let after = after as usize % n;
        let which = which as usize % (after + 1);
        early.entry(after).or_default().push(which);
    }
    sc::verif::install();
    sc::verif::clear_plan();
    sc::verif::set_mmap_hint_cycle(w.placement.clone());
    if w.deny_mremap {
        sc::verif::plan(vec![sc::verif::Rule { nr: Some(sc::nr::MREMAP), nth: None, action: sc::verif::Action::ForceRet(sc::verif::neg_errno(libc::ENOSYS)), times: usize::MAX }]);
    }
    sc::verif::log_begin();
    let base = held();
    let mut a = Dlmalloc::new();
    let mut ptrs: Vec<*mut u8> = vec![core::ptr::null_mut(); n];
    let mut max_peak = 0usize;
    let mut result = Ok(());
    let mut done_rounds = 0u64;
    // set-up pass: long-lived blocks between holes (see `Workload::keep`)
    let mut kept: Vec<*mut u8> = Vec::new();
    if !w.keep.is_empty() {
        let scale = w.setup_scale.clamp(25, 200) as usize;
        let setup: Vec<(usize, usize)> = if w.setup_blocks.is_empty() { w.blocks.iter().map(|b| ((b.0 * scale / 100).max(1), 1usize << b.1.min(13))).collect() } else { w.setup_blocks.iter().map(|b| ((*b).max(1), 8usize)).collect() };
        let m = setup.len();
        let mut tmp: Vec<*mut u8> = Vec::with_capacity(m);
        for (j, &(size, al)) in setup.iter().enumerate() {
            tmp.push(unsafe { a.malloc(size, al) });
            for &(ks, pos) in &w.keep {
                if pos as usize % m == j {
                    let q = unsafe { a.malloc(ks.max(1) as usize, 8) };
                    if !q.is_null() {
                        kept.push(q);
                    }
                }
            }
        }
        // the pass's own blocks go in the round's free order where that applies, else forward
        if w.setup_blocks.is_empty() {
            for &k in &order {
                if !tmp[k].is_null() {
                    unsafe { a.free(tmp[k]) };
                    tmp[k] = core::ptr::null_mut();
                }
            }
        }
        for p in tmp {
            if !p.is_null() {
                unsafe { a.free(p) };
            }
        }
    }
    'rounds: for r in 0..rounds {
        let mut peak = 0usize;
        for j in 0..n {
            let (size, al) = w.blocks[j];
            let zeroed = w.zeroed >> (j % 64) & 1 == 1;
            let p = match no_panic("malloc", || unsafe { if zeroed { a.calloc(size, 1usize << al.min(13)) } else { a.malloc(size, 1usize << al.min(13)) } }) {
                Ok(p) => p,
                Err(f) => {
                    result = Err(f);
                    break 'rounds;
                }
            };
            if p.is_null() {
                result = Err(Failure::new("footprint|malloc returned null without fault injection", format!("round {r}, block {j} ({size} bytes)")));
                break 'rounds;
            }
            ptrs[j] = p;
            let h = held().wrapping_sub(base);
            if h > peak {
                peak = h;
            }
            if let Some(list) = early.get(&j) {
                for &k in list {
                    if !ptrs[k].is_null() {
                        unsafe { a.free(ptrs[k]) };
                        ptrs[k] = core::ptr::null_mut();
                    }
                }
            }
        }
        // resizes (grow and shrink in place or by moving)
        let mut cur: Vec<usize> = w.blocks.iter().map(|b| b.0).collect();
        for &(k, new) in &w.resize {
            let k = k as usize % n;
            let new = new.max(1);
            if ptrs[k].is_null() {
                continue;
            }
            let (old, al) = (cur[k], 1usize << w.blocks[k].1.min(13));
            let p = match no_panic("realloc", || unsafe { a.realloc(ptrs[k], old, al, new) }) {
                Ok(p) => p,
                Err(f) => {
                    result = Err(f);
                    break 'rounds;
                }
            };
            if p.is_null() {
                result = Err(Failure::new("footprint|realloc returned null without fault injection", format!("round {r}, block {k}: {old} -> {new} bytes")));
                break 'rounds;
            }
            ptrs[k] = p;
            cur[k] = new;
            let h = held().wrapping_sub(base);
            if h > peak {
                peak = h;
            }
        }
        for &k in &order {
            if !ptrs[k].is_null() {
                unsafe { a.free(ptrs[k]) };
                ptrs[k] = core::ptr::null_mut();
            }
        }
        if peak > max_peak {
            max_peak = peak;
        }
        done_rounds = r + 1;
        if peak > b {
            result = Err(Failure::new(
                "footprint|held memory exceeds 4*(round_total+1MiB)",
                format!("round {r} of {rounds}: the allocator held {peak} bytes from the OS, bound {b} (round_total {} bytes, {} blocks): memory held grows with the number of rounds", round_total(w), n),
            ));
            break 'rounds;
        }
    }
    // release everything the instance still holds (Dlmalloc has no Drop)
    let log = sc::verif::log_end();
    sc::verif::clear_plan();
    let mut maps: BTreeMap<usize, usize> = BTreeMap::new();
    for c in &log {
        let err = c.ret > (-4096isize) as usize;
        if !c.executed || err {
            continue;
        }
        if c.nr == sc::nr::MMAP {
            maps.insert(c.ret, c.args[1]);
        } else if c.nr == sc::nr::MUNMAP {
            ledger_unmap(&mut maps, c.args[0], c.args[1]);
        } else if c.nr == sc::nr::MREMAP {
            ledger_unmap(&mut maps, c.args[0], c.args[1]);
            maps.insert(c.ret, c.args[2]);
        }
    }
    for (&bse, &l) in &maps {
        unsafe { libc::munmap(bse as *mut libc::c_void, l) };
        // keep the global counters consistent with what the allocator itself would report
        sc::verif::UNMAPPED.fetch_add(l, Ordering::Relaxed);
    }
    result?;
    Ok(RunStats { rounds: done_rounds, full_sensitivity: full, max_ratio_to_round_total: max_peak as f64 / (round_total(w) + MIB) as f64, max_peak, ops: done_rounds * ops_per_round })
}

fn ledger_unmap(maps: &mut BTreeMap<usize, usize>, addr: usize, len: usize) {
    let end = addr + len;
    let hits: Vec<(usize, usize)> = maps.range(..end).filter(|(&b, &l)| b + l > addr).map(|(&b, &l)| (b, l)).collect();
    for (b, l) in hits {
        maps.remove(&b);
        if b < addr {
            maps.insert(b, addr - b);
        }
        if b + l > end {
            maps.insert(end, b + l - end);
        }
    }
}

thread_local! {
    static MAX_RATIO_MILLI: std::cell::Cell<u64> = const { std::cell::Cell::new(0) };
}

pub fn check_workload(ctx: &Ctx, w: &Workload) -> CaseResult {
    let budget = if ctx.thorough() { 30_000_000 } else { 3_000_000 };
    let st = run_workload(w, budget)?;
    let mut rep = CaseReport::new();
    let sizes: Vec<usize> = w.blocks.iter().map(|b| b.0).collect();
    let small = sizes.iter().filter(|&&s| s < 256).count();
    let large = sizes.iter().filter(|&&s| s >= 100 << 10).count();
    let mut classes = 0;
    for lim in [(0usize, 256usize), (256, 4096), (4096, 100 << 10), (100 << 10, usize::MAX)] {
        if sizes.iter().any(|&s| s >= lim.0 && s < lim.1) {
            classes += 1;
        }
    }
    rep.nontrivial_if(classes >= 2 && st.full_sensitivity);
    rep.class_if(small == sizes.len(), "all-small");
    rep.class_if(large == sizes.len(), "all-large");
    rep.class_if(classes >= 2, "mixed-size-classes");
    rep.class_if(!w.early_free.is_empty(), "interleaved-frees");
    rep.class_if(w.deny_mremap, "every-mremap-refused");
    rep.class_if(!w.resize.is_empty(), "with-realloc");
    rep.class_if(w.blocks.iter().any(|b| b.1 > 4), "over-aligned-blocks");
    rep.class_if(w.zeroed != 0, "with-calloc");
    {
        let n = w.blocks.len().max(1);
        let mut cur: Vec<usize> = w.blocks.iter().map(|b| b.0).collect();
        let (mut small_shrink, mut grow) = (false, false);
        for &(k, new) in &w.resize {
            let k = k as usize % n;
            let new = new.max(1);
            if new < cur[k] && cur[k] - new >= 32 && cur[k] - new < 256 {
                small_shrink = true;
            }
            if new > cur[k] {
                grow = true;
            }
            cur[k] = new;
        }
        rep.class_if(small_shrink, "realloc-shrinks-by-32..255-bytes");
        rep.class_if(grow, "realloc-grows");
    }
    rep.class_if(w.free_mode >= 2, "shuffled-free-order");
    rep.class_if(!w.keep.is_empty(), "long-lived-blocks-between-holes");
    rep.class_if(!w.keep.is_empty() && !w.setup_blocks.is_empty() && w.setup_blocks.iter().filter(|b| **b >= (12 << 20)).count() >= 2, "two-or-more-holes-of-12MiB-or-more");
    rep.class_if(!w.keep.is_empty() && w.setup_scale < 100, "holes-smaller-than-the-requests");
    rep.class_if(!w.keep.is_empty() && w.setup_scale > 100, "holes-larger-than-the-requests");
    rep.class_if(!st.full_sensitivity, "low-sensitivity");
    rep.class_if(st.full_sensitivity, "full-sensitivity");
    rep.class_if(st.rounds >= 10_000, "10k+rounds");
    rep.class_if(w.placement.contains(&3), "non-contiguous-segments");
    rep.class_if(w.placement.contains(&1) || w.placement.contains(&2), "steered-adjacent-segments");
    rep.class_if(w.placement.contains(&4), "mappings-steered-to-the-end-of-the-trimmed-run");
    let milli = (st.max_ratio_to_round_total * 1000.0) as u64;
    MAX_RATIO_MILLI.with(|m| {
        if milli > m.get() {
            m.set(milli);
        }
    });
    Ok(rep)
}

fn size_class() -> impl Strategy<Value = usize> {
    prop_oneof![
        4 => 1usize..256,
        3 => 256usize..4096,
        2 => 4096usize..(100 << 10),
        1 => (100usize << 10)..(2 << 20),
    ]
}

pub fn workload_strategy() -> impl Strategy<Value = Workload> {
    let blocks = prop_oneof![
        // all-small, tiny workloads: very many rounds
        3 => prop::collection::vec((1usize..256, 0u8..5), 1..12),
        // small over-aligned blocks (memalign path: leader / trailer handling), very many rounds
        2 => prop::collection::vec((1usize..600, prop_oneof![3 => Just(5u8), 2 => Just(6u8), 1 => 7u8..10]), 2..24),
        3 => prop::collection::vec((size_class(), prop_oneof![4 => 0u8..5, 1 => 5u8..13]), 1..60),
        1 => prop::collection::vec((size_class(), 0u8..5), 60..200),
        2 => prop::collection::vec(((100usize << 10)..(4 << 20), 0u8..5), 1..12),
        1 => prop::collection::vec((prop_oneof![(60usize << 10)..(70 << 10), (2usize << 20) - 4096..(2 << 20) + 4096], 0u8..5), 1..8),
    ];
    let placement = prop_oneof![
        3 => Just(vec![]),
        3 => Just(vec![3u8]),
        3 => Just(vec![4u8]),
        2 => prop::collection::vec(0u8..5, 1..6),
    ];
    // resizes are drawn relative to the block's size: small and large shrinks and growths
    let rel = prop_oneof![
        2 => (any::<u16>(), 1usize..32, any::<bool>()),
        4 => (any::<u16>(), 32usize..300, any::<bool>()),
        2 => (any::<u16>(), 300usize..5000, any::<bool>()),
        1 => (any::<u16>(), 5000usize..(300 << 10), any::<bool>()),
    ];
    let resizes = prop_oneof![2 => Just(vec![]), 3 => prop::collection::vec(rel, 1..12)];
    let keep = prop_oneof![3 => Just(vec![]), 2 => prop::collection::vec((prop_oneof![3 => 16u16..512, 1 => 512u16..8192], any::<u16>()), 1..7)];
    let scale = prop::sample::select(vec![100u8, 75, 60, 50, 130, 150, 200]);
    (blocks, prop::collection::vec((any::<u16>(), any::<u16>()), 0..8), any::<u64>(), 0u8..3, placement, resizes, prop_oneof![2 => Just(0u64), 1 => any::<u64>()], (keep, scale))
        .prop_map(|(blocks, early_free, free_seed, free_mode, placement, rel, zeroed, (keep, setup_scale))| {
            let n = blocks.len();
            let mut cur: Vec<usize> = blocks.iter().map(|b| b.0).collect();
            let mut resize = Vec::new();
            for (k, d, grow) in rel {
                let i = k as usize % n;
                let new = if grow { cur[i] + d } else { cur[i].saturating_sub(d).max(1) };
                cur[i] = new;
                resize.push((k, new));
            }
            Workload { blocks, early_free, free_seed, free_mode, placement, resize, zeroed, keep, setup_scale, setup_blocks: vec![], deny_mremap: free_seed % 5 == 0 }
        })
}

/// Holes of 12 MiB and more (the last, unbounded tree bin) kept apart by long-lived blocks, and rounds of
/// one or two requests of that magnitude; sizes are whole MiB plus or minus a little, so that the keys in
/// the bin differ in their high bits. Nothing is written to the blocks: the rounds cost mmap/munmap only.
pub fn huge_strategy() -> impl Strategy<Value = Workload> {
    let size = || (12usize..=48, prop::sample::select(vec![0isize, -8, -4096, 4096, -60_000, -(64 << 10), 20_000])).prop_map(|(k, d)| ((k << 20) as isize + d) as usize);
    (
        prop::collection::vec(size(), 2..=4),
        prop::collection::vec((size(), Just(0u8)), 1..=2),
        prop::collection::vec(prop::sample::select(vec![100u16, 20_000, 60_000]), 4),
        prop_oneof![3 => Just(vec![]), 1 => Just(vec![2u8]), 1 => Just(vec![4u8])],
        0u8..2,
    )
        .prop_map(|(setup_blocks, blocks, ks, placement, free_mode)| {
            let keep = (0..setup_blocks.len()).map(|j| (ks[j % 4], j as u16)).collect();
            Workload { blocks, early_free: vec![], free_seed: 0, free_mode, placement, resize: vec![], zeroed: 0, keep, setup_scale: 100, setup_blocks, deny_mremap: false }
        })
}

/// "shrink-keep": waves of { allocate a large block (held memory H1 with it live), shrink it to a few bytes
/// with realloc and keep it, allocate a block of half the size (held memory H2), free that one }. Whatever
/// the allocator does with the space the shrink gave up - keep it as a free chunk or hand it back to the
/// OS - the half-size request fits into it, so H2 <= H1 plus granule slack. (A bound on the whole history
/// in terms of the peak of live bytes is NOT asserted here: kept crumbs fragment a non-moving heap, which
/// the first draft of this sub-check reported on the unchanged tree - a false alarm, see DESIGN.md.)
#[derive(Debug, Clone, Serialize, Deserialize)]
pub struct ShrinkCase {
    pub size: usize,
    pub align_log2: u8,
    pub tiny: u16,
    pub waves: u8,
    pub rounds: u8,
    /// the large block is obtained with calloc
    pub zeroed: bool,
}

pub fn check_shrink(c: &ShrinkCase) -> CaseResult {
    let mut rep = CaseReport::new();
    let size = c.size.clamp(256 << 10, 4 << 20);
    let al = 1usize << c.align_log2.min(12);
    let tiny = (c.tiny as usize).clamp(1, 4096);
    let waves = c.waves.clamp(2, 24) as usize;
    let slack = 3 * (64usize << 10) + 2 * al;
    sc::verif::install();
    sc::verif::clear_plan();
    sc::verif::set_mmap_hint_cycle(vec![]);
    sc::verif::log_begin();
    let base = held();
    let mut a = Dlmalloc::new();
    let mut result = Ok(());
    'r: for r in 0..c.rounds.clamp(1, 3) {
        let mut kept: Vec<*mut u8> = Vec::with_capacity(waves);
        for w in 0..waves {
            let p = unsafe { if c.zeroed { a.calloc(size, al) } else { a.malloc(size, al) } };
            if p.is_null() {
                result = Err(Failure::new("shrink-keep|malloc returned null without fault injection", format!("round {r}, wave {w}")));
                break 'r;
            }
            unsafe { p.write(w as u8) };
            let h1 = held().wrapping_sub(base);
            let q = match no_panic("realloc", || unsafe { a.realloc(p, size, al, tiny) }) {
                Ok(q) => q,
                Err(f) => {
                    result = Err(f);
                    break 'r;
                }
            };
            if q.is_null() || unsafe { q.read() } != w as u8 || q as usize % al != 0 {
                result = Err(Failure::new("shrink-keep|realloc result wrong", format!("round {r}, wave {w}: realloc({size} -> {tiny}, align {al}) gave {q:?}")));
                break 'r;
            }
            kept.push(q);
            let half = unsafe { a.malloc(size / 2, 8) };
            let h2 = held().wrapping_sub(base);
            if !half.is_null() {
                unsafe { a.free(half) };
            }
            if h2 > h1 + slack {
                result = Err(Failure::new(
                    format!("footprint|space given up by a shrinking realloc is not reused|{}", if al > 16 { "over-aligned block" } else { "ordinary alignment" }),
                    format!("round {r}, wave {w}: with a block of {size} bytes (align {al}) live the allocator held {h1} bytes; the block was shrunk to {tiny} bytes by realloc, then a block of {} bytes was requested: held memory rose to {h2} (+{} bytes) although the shrink freed {} bytes", size / 2, h2 - h1, size - tiny),
                ));
                break 'r;
            }
        }
        for q in kept {
            unsafe { a.free(q) };
        }
    }
    let log = sc::verif::log_end();
    let mut maps: BTreeMap<usize, usize> = BTreeMap::new();
    for c in &log {
        let err = c.ret > (-4096isize) as usize;
        if !c.executed || err {
            continue;
        }
        if c.nr == sc::nr::MMAP {
            maps.insert(c.ret, c.args[1]);
        } else if c.nr == sc::nr::MUNMAP {
            ledger_unmap(&mut maps, c.args[0], c.args[1]);
        } else if c.nr == sc::nr::MREMAP {
            ledger_unmap(&mut maps, c.args[0], c.args[1]);
            maps.insert(c.ret, c.args[2]);
        }
    }
    for (&b, &l) in &maps {
        unsafe { libc::munmap(b as *mut libc::c_void, l) };
    }
    result?;
    rep.nontrivial = true;
    rep.class_if(al > 16, "over-aligned-blocks-shrunk");
    rep.class_if(al <= 16, "ordinary-alignment-blocks-shrunk");
    rep.class_if(c.zeroed, "calloc-then-shrink");
    Ok(rep)
}

pub fn shrink_strategy() -> impl Strategy<Value = ShrinkCase> {
    (prop_oneof![(256usize << 10)..(600 << 10), (600usize << 10)..(4 << 20)], prop_oneof![3 => 0u8..5, 4 => 5u8..13], prop_oneof![1u16..64, 64u16..4096], 2u8..24, 1u8..3, prop::bool::weighted(0.2))
        .prop_map(|(size, align_log2, tiny, waves, rounds, zeroed)| ShrinkCase { size, align_log2, tiny, waves, rounds, zeroed })
}

pub fn run(ctx: &Ctx) {
    ctx.run_prop_opts("shrink-keep", ctx.cases(40, 300), 24, shrink_strategy(), check_shrink);
    ctx.run_prop_opts("single-thread", ctx.cases(60, 400), 48, workload_strategy(), |w| check_workload(ctx, w));
    ctx.run_prop_opts("huge-holes", ctx.cases(60, 200), 24, huge_strategy(), |w| check_workload(ctx, w));
    ctx.extra("max_ratio_peakheld_to_round_total_plus_1MiB_milli", serde_json::json!(MAX_RATIO_MILLI.with(|m| m.get())));
    crate::galloc_driver::run(ctx);
}
