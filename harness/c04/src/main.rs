//! Harness binary for property C04. `c04 C04 [--seed N --worker I --nworkers N --tier T --out F --replay F]`.
mod check;
mod galloc_driver;

fn main() {
    vh::runner::main_for(|ctx| check::run(ctx));
}
