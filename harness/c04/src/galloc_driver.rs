//! Drives the `galloc` binary (global allocator = the repository's GlobalDlMalloc under its
//! futex Mutex) with generated multi-thread workloads and applies the C04 inequality to the
//! process-wide counters.
use std::io::Write;
use std::process::{Command, Stdio};

use proptest::prelude::*;
use serde::{Deserialize, Serialize};

use vh::runner::{CaseReport, CaseResult, Ctx, Failure};

use crate::check::{round_total, workload_strategy, Workload};

#[derive(Debug, Clone, Serialize, Deserialize)]
pub struct MtCase {
    pub threads: Vec<Workload>,
    pub rounds: u64,
}

fn galloc_path() -> std::path::PathBuf {
    let me = std::env::current_exe().unwrap();
    me.parent().unwrap().join("galloc")
}

pub fn check_mt(c: &MtCase) -> CaseResult {
    let path = galloc_path();
    if !path.exists() {
        return Err(Failure::new("harness|galloc binary missing", format!("{}", path.display())));
    }
    let body = serde_json::json!({
        "threads": c.threads.iter().map(|w| serde_json::json!({"blocks": w.blocks, "free_mode": w.free_mode, "free_seed": w.free_seed})).collect::<Vec<_>>(),
        "rounds": c.rounds,
        "verify": true,
        "bound": 4 * (c.threads.iter().map(round_total).sum::<usize>() + (1 << 20)),
    });
    let mut child = Command::new(&path).stdin(Stdio::piped()).stdout(Stdio::piped()).stderr(Stdio::piped()).spawn().map_err(|e| Failure::new("harness|spawn galloc", e.to_string()))?;
    child.stdin.take().unwrap().write_all(body.to_string().as_bytes()).unwrap();
    // watchdog: a run that takes minutes is inconclusive, never a violation
    let pid = child.id() as i32;
    let done = std::sync::Arc::new(std::sync::atomic::AtomicBool::new(false));
    let d2 = done.clone();
    let killer = std::thread::spawn(move || {
        for _ in 0..1800 {
            std::thread::sleep(std::time::Duration::from_millis(100));
            if d2.load(std::sync::atomic::Ordering::SeqCst) {
                return false;
            }
        }
        unsafe { libc::kill(pid, libc::SIGKILL) };
        true
    });
    let out = child.wait_with_output().map_err(|e| Failure::new("harness|wait galloc", e.to_string()))?;
    done.store(true, std::sync::atomic::Ordering::SeqCst);
    if killer.join().unwrap_or(false) {
        return Err(Failure::new("harness|galloc-timeout", "galloc exceeded 180 s and was killed".to_string()));
    }
    if !out.status.success() {
        use std::os::unix::process::ExitStatusExt;
        let err = String::from_utf8_lossy(&out.stderr);
        return Err(Failure::new(
            format!("global-allocator|process died|{}", out.status.signal().map(|s| format!("signal {s}")).unwrap_or_else(|| "exit".into())),
            format!("galloc ended with {:?}: {}", out.status, &err[..err.len().min(400)]),
        ));
    }
    let v: serde_json::Value = serde_json::from_slice(&out.stdout).map_err(|e| Failure::new("harness|galloc output", e.to_string()))?;
    let peak = v["peak"].as_u64().unwrap_or(0) as usize;
    let corrupt = v["corrupt"].as_u64().unwrap_or(0);
    if corrupt != 0 {
        return Err(Failure::new("global-allocator|block contents changed under concurrent churn", format!("{corrupt} blocks lost their tag bytes")));
    }
    let total: usize = c.threads.iter().map(round_total).sum();
    let bound = 4 * (total + (1 << 20));
    if peak > bound {
        return Err(Failure::new(
            "footprint|held memory exceeds 4*(round_total+1MiB)|global allocator, multi-thread",
            format!("{} threads x {} rounds: peak held {peak} bytes, bound {bound} (sum of round totals {total})", c.threads.len(), c.rounds),
        ));
    }
    let mut rep = CaseReport::new();
    rep.nontrivial_if(c.threads.len() >= 2);
    rep.class("multi-thread-global-allocator");
    rep.class_if(c.threads.len() >= 4, "4+threads");
    Ok(rep)
}

pub fn run(ctx: &Ctx) {
    let budget: u64 = if ctx.thorough() { 20_000_000 } else { 2_000_000 };
    let strat = prop::collection::vec(workload_strategy(), 1..=8).prop_map(move |threads| {
        let ops: u64 = threads.iter().map(|w| 2 * w.blocks.len() as u64).max().unwrap_or(1);
        let total: usize = threads.iter().map(round_total).sum();
        let smallest = threads.iter().flat_map(|w| w.blocks.iter().map(|b| b.0)).min().unwrap_or(1);
        let want = (8 * (total as u64 + (1 << 20))) / (smallest as u64 + 16) + 2;
        let rounds = want.min((budget / ops).max(8));
        MtCase { threads, rounds }
    });
    // the debug-assertion build of the allocator re-checks its whole state on every call: a thorough case there
    // costs the better part of a minute, so that profile gets fewer of them
    let thorough_cases = if cfg!(debug_assertions) { 30 } else { 120 };
    ctx.run_prop_opts("global-mt", ctx.cases(12, thorough_cases), 24, strat, |c| match check_mt(c) {
        Err(f) if f.sig == "harness|galloc-timeout" => {
            ctx.inconclusive();
            Ok(CaseReport::new())
        }
        r => r,
    });
}
