//! Helper executed by the spawn checks: dumps what it observes about its own start-up into the
//! file named by argv[1] (JSON), then exits with the code in argv[2]. argv[3] is a flag string:
//! `o` write "OUT" to stdout, `e` write "ERR" to stderr, `i` read stdin to EOF and record it.
use std::io::{Read, Write};
use std::os::unix::ffi::{OsStrExt, OsStringExt};
use std::os::unix::fs::MetadataExt;

fn hex(b: &[u8]) -> String {
    b.iter().map(|c| format!("{c:02x}")).collect()
}

fn main() {
    let args: Vec<Vec<u8>> = std::env::args_os().map(|a| a.into_vec()).collect();
    let envs: Vec<Vec<u8>> = std::env::vars_os().map(|(k, v)| [k.as_bytes(), b"=", v.as_bytes()].concat()).collect();
    let dump = std::ffi::OsString::from_vec(args.get(1).cloned().unwrap_or_default());
    let code: i32 = args.get(2).and_then(|a| String::from_utf8_lossy(a).parse().ok()).unwrap_or(0);
    let flags = args.get(3).cloned().unwrap_or_default();
    let mut stdin_data = Vec::new();
    // raw results of using the three streams: -1 = not attempted, 0 = ok, >0 = errno
    let (mut in_res, mut out_res, mut err_res) = (-1i32, -1i32, -1i32);
    let errno = |e: std::io::Error| e.raw_os_error().unwrap_or(9999);
    if flags.contains(&b'i') {
        in_res = match std::io::stdin().read_to_end(&mut stdin_data) {
            Ok(_) => 0,
            Err(e) => errno(e),
        };
    }
    if flags.contains(&b'o') {
        out_res = match unsafe { libc::write(1, b"OUT".as_ptr().cast(), 3) } {
            3 => 0,
            _ => errno(std::io::Error::last_os_error()),
        };
    }
    if flags.contains(&b'e') {
        err_res = match unsafe { libc::write(2, b"ERR".as_ptr().cast(), 3) } {
            3 => 0,
            _ => errno(std::io::Error::last_os_error()),
        };
    }
    let _ = std::io::stdout().flush();
    // raw environment block (vars_os skips malformed entries): read /proc/self/environ
    let raw_env = std::fs::read("/proc/self/environ").unwrap_or_default();
    let mut fds = Vec::new();
    if let Ok(rd) = std::fs::read_dir("/proc/self/fd") {
        for e in rd.flatten() {
            let Ok(n) = e.file_name().to_string_lossy().parse::<i32>() else { continue };
            let link = std::fs::read_link(e.path()).map(|p| p.into_os_string().into_vec()).unwrap_or_default();
            if link.ends_with(b"/fd") || String::from_utf8_lossy(&link).contains("/proc/") {
                continue; // the directory handle used for this listing
            }
            let (dev, ino, rdev, mode) = match std::fs::metadata(e.path()) {
                Ok(m) => (m.dev(), m.ino(), m.rdev(), m.mode()),
                Err(_) => (0, 0, 0, 0),
            };
            fds.push(format!("{{\"fd\":{n},\"dev\":{dev},\"ino\":{ino},\"rdev\":{rdev},\"mode\":{mode},\"link\":\"{}\"}}", hex(&link)));
        }
    }
    let cwd = std::env::current_dir().map(|p| p.into_os_string().into_vec()).unwrap_or_default();
    let (pid, pgid, ppid, uid, gid) = unsafe { (libc::getpid(), libc::getpgid(0), libc::getppid(), libc::getuid(), libc::getgid()) };
    let json = format!(
        "{{\"args\":[{}],\"env\":[{}],\"raw_env\":\"{}\",\"cwd\":\"{}\",\"pid\":{pid},\"pgid\":{pgid},\"ppid\":{ppid},\"uid\":{uid},\"gid\":{gid},\"stdin\":\"{}\",\"in_res\":{in_res},\"out_res\":{out_res},\"err_res\":{err_res},\"fds\":[{}]}}",
        args.iter().map(|a| format!("\"{}\"", hex(a))).collect::<Vec<_>>().join(","),
        envs.iter().map(|a| format!("\"{}\"", hex(a))).collect::<Vec<_>>().join(","),
        hex(&raw_env),
        hex(&cwd),
        hex(&stdin_data),
        fds.join(",")
    );
    let _ = std::fs::write(&dump, json);
    std::process::exit(code);
}
