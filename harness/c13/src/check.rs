//! C13 — Command::spawn returns only in the caller; the child runs exactly what was
//! configured, or the caller gets that step's errno and no process is left behind.
use std::os::unix::ffi::OsStrExt;
use std::os::unix::fs::MetadataExt;

use proptest::prelude::*;
use rusl::platform::Fd;
use rusl::string::unix_str::{UnixStr, UnixString};
use serde::{Deserialize, Serialize};
use tiny_std::io::{Read, Write};
use tiny_std::process::{Command, Stdio};

use sc::verif::{Action, Rule};
use vh::runner::{no_panic, CaseReport, CaseResult, Ctx, Failure};
use vh::util::{escape, BStr};
use vh::{ensure, fail};

#[derive(Debug, Clone, Copy, Serialize, Deserialize, PartialEq)]
pub enum Fault {
    None,
    /// parent side: nth pipe2 call fails
    Pipe2(u8, i32),
    /// parent side: open of /dev/null fails (nth)
    OpenNull(u8, i32),
    Fork(i32),
    /// the nth fcntl(F_DUPFD_CLOEXEC) spawn makes fails - the call that lifts an internal descriptor out of 0..=2
    /// when the caller has closed some of its own standard descriptors (whichever process makes it: where it is
    /// made is found in the parent's call log afterwards)
    Fcntl(u8, i32),
    /// parent side: the read on the sync pipe is interrupted n times first
    ReadEintr(u8),
    /// (not generated: read(2) on a pipe has no plausible error besides EINTR; with a forced EIO the
    /// parent waits for a child that may itself be waiting for its stdin pipe - kept for replays)
    ReadErr(i32),
    /// child side (plan inherited through fork)
    Dup(u8, i32),
    Chdir(i32),
    Setuid(i32),
    Setgid(i32),
    Setpgid(i32),
    Execve(i32),
}

#[derive(Debug, Clone, Serialize, Deserialize)]
pub struct SpawnCase {
    /// 0 helper binary, 1 missing path, 2 existing non-executable file
    pub prog: u8,
    pub args: Vec<BStr>,
    /// None = leave the environment knob untouched; Some = provide exactly these entries
    pub env: Option<Vec<BStr>>,
    /// 0 untouched, 1 existing directory, 2 missing directory
    pub cwd: u8,
    pub pgroup: bool,
    pub ids: bool,
    /// per stream: 0 untouched, 1 Inherit, 2 Null, 3 MakePipe, 4 RawFd
    pub stdio: [u8; 3],
    /// pre-exec closures: 0 = Ok, n > 0 = Err carrying errno n (as an OS error of a failing call)
    pub closures: Vec<u8>,
    pub exit_code: u8,
    pub fault: Fault,
    /// the caller's own descriptors 0/1/2 are closed while spawn runs (daemon-style caller)
    #[serde(default)]
    pub closed: [bool; 3],
    /// how the exit status is collected: 0 = wait, try_wait; 1 = poll try_wait until it reports
    /// the exit, then wait, then try_wait; 2 = one immediate try_wait, then wait twice
    #[serde(default)]
    pub wait_mode: u8,
    /// with stdin = MakePipe and no other pipe: the parent writes through `child.stdin.as_mut()` and
    /// leaves the pipe inside the `Child` when it calls `wait` (the helper reads its stdin to the end)
    #[serde(default)]
    pub keep_stdin: bool,
    /// how the arguments and environment entries reach the builder: a list of chunk lengths; chunks are
    /// fed alternately one by one through `arg`/`env` and in one call through `args`/`envs` (an empty
    /// list: everything one by one). A chunk of length 0 is an `args`/`envs` call with an empty iterator.
    #[serde(default)]
    pub feed: Vec<u8>,
    /// the streams configured as RawFd all get ONE descriptor (as in `cmd >log 2>&1`, or one socket
    /// serving as all three streams) instead of one each
    #[serde(default)]
    pub shared_raw: bool,
}

/// Definitive dead-lock of `wait` against a child that reads its standard input to the end: the
/// waiting thread sits in wait4 while the child sits in read(0), three samples 200 ms apart. The only
/// write end of that pipe belongs to the waiting process, so nothing can end this. The child is then
/// killed (so that the harness goes on) and the fact is reported by the caller.
fn stdin_deadlock_watch(pid: i32, waiter_tid: i32, done: std::sync::Arc<std::sync::atomic::AtomicBool>, fired: std::sync::Arc<std::sync::atomic::AtomicBool>) -> std::thread::JoinHandle<()> {
    use std::sync::atomic::Ordering::SeqCst;
    std::thread::spawn(move || {
        let mut hits = 0;
        while !done.load(SeqCst) {
            std::thread::sleep(std::time::Duration::from_millis(200));
            let child = std::fs::read_to_string(format!("/proc/{pid}/syscall")).unwrap_or_default();
            let me = std::fs::read_to_string(format!("/proc/self/task/{waiter_tid}/syscall")).unwrap_or_default();
            if child.starts_with("0 0x0 ") && me.starts_with("61 ") {
                hits += 1;
            } else {
                hits = 0;
            }
            if hits >= 3 && !done.load(SeqCst) {
                fired.store(true, SeqCst);
                unsafe { libc::kill(pid, libc::SIGKILL) };
                return;
            }
        }
    })
}

fn helper_path() -> std::path::PathBuf {
    std::env::current_exe().unwrap().parent().unwrap().join("dumpenv")
}

fn us(b: &[u8]) -> UnixString {
    UnixString::try_from_bytes(b).expect("NUL-free")
}

fn errno_of(e: &tiny_std::Error) -> Option<i32> {
    match e {
        tiny_std::Error::Os { code, .. } => Some(code.raw()),
        _ => None,
    }
}

fn unhex(s: &str) -> Vec<u8> {
    (0..s.len() / 2).map(|i| u8::from_str_radix(&s[2 * i..2 * i + 2], 16).unwrap_or(0)).collect()
}

#[derive(Clone)]
struct Ident {
    dev: u64,
    ino: u64,
}

fn fstat_ident(fd: i32) -> Option<Ident> {
    unsafe {
        let mut st: libc::stat = core::mem::zeroed();
        if libc::fstat(fd, &mut st) == 0 {
            Some(Ident { dev: st.st_dev, ino: st.st_ino })
        } else {
            None
        }
    }
}

/// Reap everything; returns (number of zombies reaped, number of children still running).
fn reap_all() -> (u32, u32) {
    let mut zombies = 0;
    let mut running = 0;
    loop {
        let mut st = 0;
        let r = unsafe { libc::waitpid(-1, &mut st, libc::WNOHANG) };
        if r > 0 {
            zombies += 1;
            continue;
        }
        if r == 0 {
            // children exist but have not exited: give them a moment, then kill
            running += 1;
            unsafe {
                libc::kill(0, 0);
            }
            std::thread::sleep(std::time::Duration::from_millis(20));
            let r2 = unsafe { libc::waitpid(-1, &mut st, libc::WNOHANG) };
            if r2 == 0 {
                // still there: terminate our direct children individually
                if let Ok(rd) = std::fs::read_dir("/proc") {
                    let me = std::process::id();
                    for e in rd.flatten() {
                        if let Ok(pid) = e.file_name().to_string_lossy().parse::<i32>() {
                            if let Ok(stat) = std::fs::read_to_string(format!("/proc/{pid}/stat")) {
                                let after = stat.rsplit(')').next().unwrap_or("");
                                let f: Vec<&str> = after.split_whitespace().collect();
                                if f.len() > 1 && f[1].parse::<u32>().ok() == Some(me) {
                                    unsafe { libc::kill(pid, libc::SIGKILL) };
                                }
                            }
                        }
                    }
                }
                unsafe { libc::waitpid(-1, &mut st, 0) };
            } else if r2 > 0 {
                continue;
            }
            continue;
        }
        break; // -1: ECHILD
    }
    (zombies, running)
}

/// A call that can never return, told apart from a slow one: the thread of the case has been blocked for 8 s in
/// a read(2) on a pipe whose write end this very process holds on one of the standard descriptors the case had
/// CLOSED before the call - so the call under test put it there and waits for an end of file that its own
/// descriptor prevents. The watch then closes that descriptor (the read returns, the case goes on) and the case
/// reports the failure. Nothing is looked at before a case has run for 3 s.
struct OwnPipeWatch {
    done: std::sync::Arc<std::sync::atomic::AtomicBool>,
    hit: std::sync::Arc<std::sync::Mutex<Option<String>>>,
    handle: Option<std::thread::JoinHandle<()>>,
}

impl OwnPipeWatch {
    fn start(closed: [bool; 3]) -> Option<OwnPipeWatch> {
        use std::sync::atomic::Ordering::SeqCst;
        use std::time::{Duration, Instant};
        if !closed.iter().any(|&b| b) {
            return None;
        }
        let tid = unsafe { libc::syscall(libc::SYS_gettid) } as i32;
        let done = std::sync::Arc::new(std::sync::atomic::AtomicBool::new(false));
        let hit = std::sync::Arc::new(std::sync::Mutex::new(None));
        let (d2, h2) = (done.clone(), hit.clone());
        let handle = std::thread::spawn(move || {
            let t_start = Instant::now();
            let mut since: Option<(i32, i32, Instant)> = None;
            loop {
                for _ in 0..5 {
                    if d2.load(SeqCst) {
                        return;
                    }
                    std::thread::sleep(Duration::from_millis(50));
                }
                if t_start.elapsed() < Duration::from_secs(3) {
                    continue;
                }
                let fifo_ino = |fd: i32| -> Option<u64> {
                    let mut st: libc::stat = unsafe { core::mem::zeroed() };
                    if unsafe { libc::fstat(fd, &mut st) } == 0 && st.st_mode & libc::S_IFMT == libc::S_IFIFO {
                        Some(st.st_ino)
                    } else {
                        None
                    }
                };
                let blocked_in_read_of = || -> Option<i32> {
                    let s = std::fs::read_to_string(format!("/proc/self/task/{tid}/syscall")).ok()?;
                    let mut it = s.split_whitespace();
                    if it.next()?.parse::<i64>().ok()? != libc::SYS_read {
                        return None;
                    }
                    i64::from_str_radix(it.next()?.trim_start_matches("0x"), 16).ok().map(|v| v as i32)
                };
                let cur = blocked_in_read_of().and_then(|r| {
                    let ino = fifo_ino(r)?;
                    (0..3i32).filter(|&i| closed[i as usize]).find(|&i| fifo_ino(i) == Some(ino) && unsafe { libc::fcntl(i, libc::F_GETFL) } & libc::O_ACCMODE == libc::O_WRONLY).map(|n| (r, n))
                });
                match (cur, since) {
                    (Some((r, n)), Some((r0, n0, t0))) if r == r0 && n == n0 => {
                        if t0.elapsed() >= Duration::from_secs(8) {
                            *h2.lock().unwrap() = Some(format!("the caller sat for 8 s in read(2) on descriptor {r}, the read end of a pipe whose write end the caller itself held on descriptor {n} (which the caller had closed before the call, so the call put it there and left it open): the end of file it waited for could never come; it went on only when the harness closed descriptor {n}"));
                            unsafe { libc::close(n) };
                            since = None;
                        }
                    }
                    (Some((r, n)), _) => since = Some((r, n, Instant::now())),
                    (None, _) => since = None,
                }
            }
        });
        Some(OwnPipeWatch { done, hit, handle: Some(handle) })
    }

    fn finish(mut self) -> Option<String> {
        self.done.store(true, std::sync::atomic::Ordering::SeqCst);
        if let Some(h) = self.handle.take() {
            let _ = h.join();
        }
        self.hit.lock().unwrap().take()
    }
}

impl Drop for OwnPipeWatch {
    fn drop(&mut self) {
        self.done.store(true, std::sync::atomic::Ordering::SeqCst);
    }
}

pub fn check_spawn(ctx: &Ctx, c: &SpawnCase) -> CaseResult {
    let mut rep = CaseReport::new();
    let root = std::path::PathBuf::from(format!("/tmp/verif-c13-{}-{}", std::process::id(), ctx.worker));
    let _ = std::fs::remove_dir_all(&root);
    std::fs::create_dir_all(root.join("cwd")).unwrap();
    // the helper under a name that exists only in the configured working directory
    let _ = std::os::unix::fs::symlink(helper_path(), root.join("cwd").join("helper-in-cwd"));
    std::fs::write(root.join("notexec"), b"#!/bin/false\n").unwrap();
    let res = run_case(c, &root, &mut rep);
    sc::verif::clear_plan();
    let (zombies, running) = reap_all();
    let _ = std::fs::remove_dir_all(&root);
    res?;
    ensure!(running == 0, "spawn|process left running after spawn returned", "{running} child process(es) still running after the call sequence completed");
    ensure!(zombies == 0, "spawn|child not reaped", "{zombies} zombie child(ren) left after spawn/wait returned");
    Ok(rep)
}

/// fork as the kernel does it, then - in the parent only - a pause of 3 ms: the child runs ahead, is through its
/// set-up and inside the requested program before the caller executes the instruction after its fork
fn fork_then_parent_lags(_a: &[usize; 6]) -> usize {
    let r = unsafe { libc::syscall(libc::SYS_fork) };
    if r < 0 {
        return sc::verif::neg_errno(unsafe { *libc::__errno_location() });
    }
    if r > 0 {
        std::thread::sleep(std::time::Duration::from_millis(3));
    }
    r as usize
}

fn run_case(c: &SpawnCase, root: &std::path::Path, rep: &mut CaseReport) -> Result<(), Failure> {
    let dump_path = root.join("dump.json");
    let helper = helper_path();
    // a program named relative to the configured working directory ("./name" exists there and nowhere else): the
    // path is the child's to resolve, after its chdir (a third of the cases that configure a directory)
    let relative_prog = c.prog == 0 && c.cwd == 1 && c.exit_code % 3 == 1;
    rep.class_if(relative_prog, "program-path-relative-to-the-configured-cwd");
    let bin_bytes: Vec<u8> = match c.prog {
        0 if relative_prog => b"./helper-in-cwd".to_vec(),
        0 => helper.as_os_str().as_bytes().to_vec(),
        1 => root.join("no-such-binary").as_os_str().as_bytes().to_vec(),
        _ => root.join("notexec").as_os_str().as_bytes().to_vec(),
    };
    let bin = us(&bin_bytes);
    // helper protocol: argv[1] dump path, argv[2] exit code, argv[3] flags
    let mut flags = String::from("-");
    if c.stdio[0] == 3 || c.stdio[0] == 2 {
        flags.push('i');
    }
    if c.stdio[1] == 3 || c.stdio[1] == 2 {
        flags.push('o');
    }
    if c.stdio[2] == 3 || c.stdio[2] == 2 {
        flags.push('e');
    }
    let mut argv_model: Vec<Vec<u8>> = vec![bin_bytes.clone(), dump_path.as_os_str().as_bytes().to_vec(), c.exit_code.to_string().into_bytes(), flags.clone().into_bytes()];
    argv_model.extend(c.args.iter().map(|a| a.0.clone()));
    let arg_strings: Vec<UnixString> = argv_model[1..].iter().map(|a| us(a)).collect();
    let cwd_bytes = if c.cwd == 1 { root.join("cwd").as_os_str().as_bytes().to_vec() } else { root.join("missing-dir").as_os_str().as_bytes().to_vec() };
    let cwd = us(&cwd_bytes);

    let extra_arg = us(b"added-after-the-failed-spawn");
    let mut cmd = Command::new(&bin).map_err(|e| Failure::new("Command::new|error", format!("{e}")))?;
    {
        // the same final list, fed through the builder's single and batch entry points in generated alternation
        let mut i = 0usize;
        let mut batch = false;
        let mut plan = c.feed.iter().map(|&n| n as usize).collect::<Vec<_>>();
        plan.push(usize::MAX);
        for n in plan {
            let end = i.saturating_add(n).min(arg_strings.len());
            if batch {
                cmd.args(arg_strings[i..end].iter().map(|a| -> &UnixStr { a }));
            } else {
                for a in &arg_strings[i..end] {
                    let r: &UnixStr = a;
                    cmd.arg(r);
                }
            }
            i = end;
            batch = !batch;
        }
    }
    if let Some(env) = &c.env {
        let mut i = 0usize;
        let mut batch = true;
        let mut plan = c.feed.iter().rev().map(|&n| n as usize).collect::<Vec<_>>();
        plan.push(usize::MAX);
        for n in plan {
            let end = i.saturating_add(n).min(env.len());
            if batch {
                cmd.envs(env[i..end].iter().map(|e| us(&e.0)));
            } else {
                for e in &env[i..end] {
                    cmd.env(us(&e.0));
                }
            }
            i = end;
            batch = !batch;
        }
    }
    if c.cwd != 0 {
        cmd.cwd(&cwd);
    }
    if c.pgroup {
        cmd.pgroup(0);
    }
    let (uid, gid) = unsafe { (libc::getuid(), libc::getgid()) };
    // an id no process can have: (uid_t)-1 / (gid_t)-1, which setuid / setgid refuse with EINVAL - the configured step
    // fails, whatever the meaning of -1 in other calls (a share of the cases that configure ids)
    let bad_uid = c.ids && c.exit_code % 7 == 3;
    let bad_gid = c.ids && c.exit_code % 7 == 4;
    if c.ids {
        cmd.uid(if bad_uid { u32::MAX } else { uid });
        cmd.gid(if bad_gid { u32::MAX } else { gid });
        rep.class_if(bad_uid || bad_gid, "configured-id-is-minus-one");
    }
    // raw fds for stdio mode 4: distinct temp files
    let mut raw: [Option<(i32, Ident)>; 3] = [None, None, None];
    for i in 0..3 {
        if c.stdio[i] == 4 {
            if c.shared_raw {
                if let Some(first) = raw[..i].iter().flatten().next().cloned() {
                    raw[i] = Some(first);
                    continue;
                }
            }
            let p = std::ffi::CString::new(root.join(format!("raw{i}")).as_os_str().as_bytes()).unwrap();
            let fd = unsafe { libc::open(p.as_ptr(), libc::O_CREAT | libc::O_RDWR | libc::O_CLOEXEC, 0o644) };
            assert!(fd >= 0);
            raw[i] = Some((fd, fstat_ident(fd).unwrap()));
        }
    }
    let mk = |i: usize| -> Option<Stdio> {
        match c.stdio[i] {
            1 => Some(Stdio::Inherit),
            2 => Some(Stdio::Null),
            3 => Some(Stdio::MakePipe),
            4 => Some(Stdio::RawFd(Fd::try_new(raw[i].as_ref().unwrap().0).unwrap())),
            _ => None,
        }
    };
    if let Some(s) = mk(0) {
        cmd.stdin(s);
    }
    if let Some(s) = mk(1) {
        cmd.stdout(s);
    }
    if let Some(s) = mk(2) {
        cmd.stderr(s);
    }
    for &cl in &c.closures {
        unsafe {
            cmd.pre_exec(move || {
                if cl == 0 {
                    Ok(())
                } else {
                    // an OS error as a failing call would produce it: chdir into a path that
                    // does not exist gives ENOENT; for other codes use a forced syscall result
                    sc::verif::plan(vec![Rule { nr: Some(sc::nr::CHDIR), nth: None, action: Action::ForceRet(sc::verif::neg_errno(i32::from(cl))), times: 1 }]);
                    let r = rusl::unistd::chdir(UnixStr::from_str_checked("/\0"));
                    sc::verif::clear_plan();
                    r.map_err(tiny_std::Error::from)
                }
            });
        }
    }

    // expected outcome (first failing step in execution order)
    let parent_std = [unsafe { libc::dup(0) }, -1, -1];
    unsafe { libc::close(parent_std[0]) };
    let mut expect_err: Option<(String, Option<i32>)> = None; // (step, errno)
    let mut rules: Vec<Rule> = Vec::new();
    let force = |nr: usize, nth: Option<usize>, e: i32, times: usize| Rule { nr: Some(nr), nth, action: Action::ForceRet(sc::verif::neg_errno(e)), times };
    let n_pipes = c.stdio.iter().filter(|&&s| s == 3).count() + 1; // + sync pipe
    let n_null = c.stdio.iter().filter(|&&s| s == 2).count();
    let mut parent_fault = false;
    let mut read_fault = false;
    match c.fault {
        Fault::None if c.exit_code % 4 == 2 => {
            // no fault, a schedule: the caller is held up right after its fork returns (every fourth fault-free case)
            rules.push(Rule { nr: Some(sc::nr::FORK), nth: Some(0), action: Action::Emulate(fork_then_parent_lags), times: 1 });
            rep.class("caller-held-up-right-after-fork");
        }
        Fault::None => {}
        Fault::Pipe2(k, e) => {
            if (k as usize) < n_pipes {
                rules.push(force(sc::nr::PIPE2, Some(k as usize), e, 1));
                expect_err = Some(("pipe2".into(), Some(e)));
                parent_fault = true;
            }
        }
        Fault::OpenNull(k, e) => {
            if (k as usize) < n_null {
                rules.push(force(sc::nr::OPENAT, Some(k as usize), e, 1));
                rules.push(force(sc::nr::OPEN, Some(k as usize), e, 1));
                expect_err = Some(("open /dev/null".into(), Some(e)));
                parent_fault = true;
            }
        }
        Fault::Fork(e) => {
            rules.push(force(sc::nr::FORK, Some(0), e, 1));
            expect_err = Some(("fork".into(), Some(e)));
            parent_fault = true;
        }
        Fault::Fcntl(k, e) => {
            rules.push(force(sc::nr::FCNTL, Some(k as usize), e, 1));
        }
        Fault::ReadEintr(n) => {
            rules.push(Rule { nr: Some(sc::nr::READ), nth: None, action: Action::ForceRet(sc::verif::neg_errno(libc::EINTR)), times: n as usize });
        }
        Fault::ReadErr(e) => {
            rules.push(force(sc::nr::READ, Some(0), e, 1));
            read_fault = true;
        }
        _ => {}
    }
    // child-side steps in order: dup2 x (configured streams), chdir, setuid, setgid, setpgid, closures, execve
    if !parent_fault {
        let n_dups = c.stdio.iter().filter(|&&s| s >= 2).count();
        let mut first: Option<(String, Option<i32>)> = None;
        let mut consider = |step: &str, e: Option<i32>, first: &mut Option<(String, Option<i32>)>| {
            if first.is_none() {
                *first = Some((step.to_string(), e));
            }
        };
        if let Fault::Dup(k, e) = c.fault {
            if (k as usize) < n_dups {
                rules.push(force(sc::nr::DUP3, Some(k as usize), e, 1));
                rules.push(force(sc::nr::DUP2, Some(k as usize), e, 1));
                consider("dup2", Some(e), &mut first);
            }
        }
        if c.cwd != 0 {
            if let Fault::Chdir(e) = c.fault {
                rules.push(force(sc::nr::CHDIR, Some(0), e, 1));
                consider("chdir", Some(e), &mut first);
            } else if c.cwd == 2 {
                consider("chdir", Some(libc::ENOENT), &mut first);
            }
        }
        if c.ids {
            if let Fault::Setuid(e) = c.fault {
                rules.push(force(sc::nr::SETUID, Some(0), e, 1));
                consider("setuid", Some(e), &mut first);
            } else if bad_uid {
                consider("setuid", Some(libc::EINVAL), &mut first);
            }
            if let Fault::Setgid(e) = c.fault {
                rules.push(force(sc::nr::SETGID, Some(0), e, 1));
                consider("setgid", Some(e), &mut first);
            } else if bad_gid {
                consider("setgid", Some(libc::EINVAL), &mut first);
            }
        }
        if c.pgroup {
            if let Fault::Setpgid(e) = c.fault {
                rules.push(force(sc::nr::SETPGID, Some(0), e, 1));
                consider("setpgid", Some(e), &mut first);
            }
        }
        for &cl in &c.closures {
            if cl != 0 {
                consider("pre_exec closure", Some(i32::from(cl)), &mut first);
                break;
            }
        }
        if let Fault::Execve(e) = c.fault {
            rules.push(force(sc::nr::EXECVE, Some(0), e, 1));
            consider("execve", Some(e), &mut first);
        } else if c.prog == 1 {
            consider("execve", Some(libc::ENOENT), &mut first);
        } else if c.prog == 2 {
            consider("execve", Some(libc::EACCES), &mut first);
        }
        if expect_err.is_none() {
            expect_err = first;
        }
    }

    // single-return marker
    let mut mp = [0i32; 2];
    unsafe { libc::pipe2(mp.as_mut_ptr(), libc::O_CLOEXEC | libc::O_NONBLOCK) };
    let parent_pid = unsafe { libc::getpid() };

    // daemon-style caller: some of its own descriptors 0/1/2 are closed during the call
    let mut saved = [-1i32; 3];
    for i in 0..3 {
        if c.closed[i] {
            saved[i] = unsafe { libc::fcntl(i as i32, libc::F_DUPFD_CLOEXEC, 700) };
            if saved[i] >= 0 {
                unsafe { libc::close(i as i32) };
            }
        }
    }
    sc::verif::install();
    // Inside spawn the parent may wait for the child only after the child reported a failure over
    // the sync pipe. When every step is expected to succeed no wait belongs there at all: such a
    // call is answered with ECHILD instead of being executed, so that a spawn that waits for a
    // running child (which may itself be waiting for the caller) cannot hang the harness.
    if expect_err.is_none() && !read_fault {
        rules.push(Rule { nr: Some(sc::nr::WAIT4), nth: None, action: Action::ForceRet(sc::verif::neg_errno(libc::ECHILD)), times: sc::verif::GUARDED_FOREVER });
    }
    let own_pipe_watch = OwnPipeWatch::start(c.closed);
    sc::verif::plan(rules);
    sc::verif::log_begin();
    let result = no_panic("Command::spawn", || cmd.spawn());
    let spawn_log = sc::verif::log_end();
    sc::verif::clear_plan();
    let any_closed = c.closed.iter().any(|&b| b);
    // the lifting fcntl that was made to fail, if the caller's process made it: spawn must report it (nothing forked yet)
    if let Fault::Fcntl(_, e) = c.fault {
        if unsafe { libc::getpid() } == parent_pid && spawn_log.iter().any(|call| call.nr == sc::nr::FCNTL && call.ret as isize == -(e as isize)) {
            expect_err = Some(("fcntl".into(), Some(e)));
        }
    }
    if unsafe { libc::getpid() } != parent_pid {
        // we are a child that spawn() returned into: tell the parent and vanish
        unsafe {
            libc::write(mp[1], b"X".as_ptr().cast(), 1);
            libc::_exit(0);
        }
    }
    let result = match result {
        Ok(r) => r,
        Err(f) => {
            unsafe {
                libc::close(mp[0]);
                libc::close(mp[1]);
            }
            return Err(f);
        }
    };

    // parent-side call order: a wait4 before the sync pipe delivered a failure report (a read that
    // returned data) or failed for good means spawn blocks on a child that is still setting up or
    // already running the requested program
    {
        let mut reported = false;
        for call in &spawn_log {
            if call.nr == sc::nr::FORK || call.nr == sc::nr::CLONE {
                reported = false;
            }
            if call.nr == sc::nr::READ {
                let r = call.ret as isize;
                if r > 0 || (r < 0 && r != -(libc::EINTR as isize)) {
                    reported = true;
                }
            }
            if call.nr == sc::nr::WAIT4 && !reported {
                unsafe {
                    libc::close(mp[0]);
                    libc::close(mp[1]);
                }
                if let Ok(mut ch) = result {
                    let _ = ch.wait();
                }
                return Err(Failure::new("spawn|waits for the child before it reported a failure", format!("inside spawn the parent called wait4 although the sync pipe had delivered no failure report yet (fault {:?}): on success the child is then running the requested program and spawn blocks for its whole lifetime", c.fault)));
            }
        }
    }

    // what the child must see / which step must fail: cells, because a Command that failed to
    // spawn is changed and spawned again further down
    let argv_cell = std::cell::RefCell::new(argv_model.clone());
    let expect_cell = std::cell::RefCell::new(expect_err.clone());
    let mut judge = |result: Result<tiny_std::process::Child, tiny_std::Error>, rep: &mut CaseReport| -> Result<(), Failure> {
        let argv_model = argv_cell.borrow().clone();
        let expect_now = expect_cell.borrow().clone();
        match (result, &expect_now) {
            (Ok(mut child), None) => {
                // interact with pipes first so the helper can finish
                let keep_stdin = c.keep_stdin && c.stdio[0] == 3 && c.stdio[1] != 3 && c.stdio[2] != 3 && c.wait_mode == 0;
                if keep_stdin {
                    let p = child.stdin.as_mut().ok_or_else(|| Failure::new("spawn|missing stdin pipe", "MakePipe requested but Child.stdin is None".to_string()))?;
                    p.write_all(b"IN").map_err(|e| Failure::new("spawn|stdin pipe write failed", format!("{e}")))?;
                    rep.class("wait-called-with-the-stdin-pipe-still-in-the-Child");
                } else if c.stdio[0] == 3 {
                    let mut p = child.stdin.take().ok_or_else(|| Failure::new("spawn|missing stdin pipe", "MakePipe requested but Child.stdin is None".to_string()))?;
                    p.write_all(b"IN").map_err(|e| Failure::new("spawn|stdin pipe write failed", format!("{e}")))?;
                    drop(p);
                } else {
                    ensure!(child.stdin.is_none(), "spawn|unexpected stdin pipe", "Child.stdin is Some without MakePipe");
                }
                let mut out = Vec::new();
                if c.stdio[1] == 3 {
                    let p = child.stdout.as_mut().ok_or_else(|| Failure::new("spawn|missing stdout pipe", "MakePipe requested but Child.stdout is None".to_string()))?;
                    p.read_to_end(&mut out).map_err(|e| Failure::new("spawn|stdout pipe read failed", format!("{e}")))?;
                    ensure!(out == b"OUT", "spawn|stdout pipe not connected to the child", "read {:?} from the child's stdout pipe, expected \"OUT\"", escape(&out));
                }
                if c.stdio[2] == 3 {
                    let mut errb = Vec::new();
                    let p = child.stderr.as_mut().ok_or_else(|| Failure::new("spawn|missing stderr pipe", "MakePipe requested but Child.stderr is None".to_string()))?;
                    p.read_to_end(&mut errb).map_err(|e| Failure::new("spawn|stderr pipe read failed", format!("{e}")))?;
                    ensure!(errb == b"ERR", "spawn|stderr pipe not connected to the child", "read {:?} from the child's stderr pipe, expected \"ERR\"", escape(&errb));
                }
                let pid = child.get_pid();
                let code = i32::from(c.exit_code);
                // every way of collecting the status reports the same, correct status, however often it is asked
                let mut polled: Option<i32> = None;
                if c.wait_mode == 1 {
                    let t0 = std::time::Instant::now();
                    while polled.is_none() && t0.elapsed() < std::time::Duration::from_secs(10) {
                        polled = no_panic("Child::try_wait", || child.try_wait())?.map_err(|e| Failure::new("Child::try_wait|error while the child runs", format!("{e}")))?;
                        if polled.is_none() {
                            std::thread::sleep(std::time::Duration::from_micros(200));
                        }
                    }
                    rep.class_if(polled.is_some(), "status-collected-by-try_wait-then-wait");
                } else if c.wait_mode == 2 {
                    polled = no_panic("Child::try_wait", || child.try_wait())?.map_err(|e| Failure::new("Child::try_wait|error while the child runs", format!("{e}")))?;
                    rep.class("try_wait-before-wait");
                }
                if let Some(p) = polled {
                    ensure!(p == code << 8 || p == code, "Child::try_wait|wrong exit status", "try_wait() returned Some({p}), the child exited with code {code}");
                }
                let done = std::sync::Arc::new(std::sync::atomic::AtomicBool::new(false));
                let fired = std::sync::Arc::new(std::sync::atomic::AtomicBool::new(false));
                let watch = if keep_stdin { Some(stdin_deadlock_watch(pid, unsafe { libc::gettid() }, done.clone(), fired.clone())) } else { None };
                let waited = no_panic("Child::wait", || child.wait());
                done.store(true, std::sync::atomic::Ordering::SeqCst);
                if let Some(h) = watch {
                    let _ = h.join();
                }
                if fired.load(std::sync::atomic::Ordering::SeqCst) {
                    return Err(Failure::new("Child::wait|never-returns|child waits for the end of a stdin pipe the waiting parent still holds", format!("stdin = MakePipe, 2 bytes written through child.stdin, pipe left in the Child; wait() sat in wait4 while the child (pid {pid}) sat in read(0) - the only write end of that pipe is the parent's, so neither can go on (the harness killed the child; wait then returned {waited:?})")));
                }
                let status = waited?.map_err(|e| Failure::new(if polled.is_some() { "Child::wait|error after try_wait reported the exit" } else { "Child::wait|error" }, format!("{e} (try_wait before: {polled:?})")))?;
                ensure!(status == code << 8 || status == code, "Child::wait|wrong exit status", "wait() returned {status}, the child exited with code {code}");
                if let Some(p) = polled {
                    ensure!(p == status, "Child::wait|differs from try_wait", "try_wait reported {p}, wait afterwards {status}");
                }
                if c.wait_mode == 2 {
                    let status2 = no_panic("Child::wait", || child.wait())?.map_err(|e| Failure::new("Child::wait|error on second wait", format!("{e}")))?;
                    ensure!(status2 == status, "Child::wait|second wait differs", "first wait {status}, second wait {status2}");
                }
                let again = no_panic("Child::try_wait", || child.try_wait())?.map_err(|e| Failure::new("Child::try_wait|error after wait", format!("{e}")))?;
                ensure!(again == Some(status), "Child::try_wait|differs from wait", "try_wait after wait returned {again:?}, wait returned {status}");
                // the dump
                let txt = std::fs::read_to_string(&dump_path).map_err(|e| Failure::new("spawn|child did not run the requested program", format!("spawn returned Ok but the helper left no dump: {e}")))?;
                let d: serde_json::Value = serde_json::from_str(&txt).map_err(|e| Failure::new("harness|dump parse", e.to_string()))?;
                let got_args: Vec<Vec<u8>> = d["args"].as_array().unwrap().iter().map(|a| unhex(a.as_str().unwrap())).collect();
                rep.class_if(!c.feed.is_empty() && argv_model.len() > 5, "arguments-fed-through-arg-and-args");
                ensure!(got_args == argv_model, "spawn|argv differs", "child saw argv {:?}, configured {:?}", got_args.iter().map(|a| escape(a)).collect::<Vec<_>>(), argv_model.iter().map(|a| escape(a)).collect::<Vec<_>>());
                if let Some(env) = &c.env {
                    let raw = unhex(d["raw_env"].as_str().unwrap());
                    let got: Vec<Vec<u8>> = if raw.is_empty() { vec![] } else { raw[..raw.len() - usize::from(raw.last() == Some(&0))].split(|&b| b == 0).map(|s| s.to_vec()).collect() };
                    let want: Vec<Vec<u8>> = env.iter().map(|e| e.0.clone()).collect();
                    ensure!(got == want, "spawn|environment differs", "child environment {:?}, configured {:?}", got.iter().map(|a| escape(a)).collect::<Vec<_>>(), want.iter().map(|a| escape(a)).collect::<Vec<_>>());
                    rep.class("env-provided");
                    rep.class_if(!c.feed.is_empty(), "environment-fed-through-env-and-envs");
                }
                let got_cwd = unhex(d["cwd"].as_str().unwrap());
                if c.cwd == 1 {
                    let want = std::fs::canonicalize(root.join("cwd")).unwrap();
                    ensure!(got_cwd == want.as_os_str().as_bytes(), "spawn|cwd differs", "child cwd {:?}, configured {:?}", escape(&got_cwd), want);
                } else {
                    let mine = std::env::current_dir().unwrap();
                    ensure!(got_cwd == mine.as_os_str().as_bytes(), "spawn|cwd changed without being configured", "child cwd {:?}, parent cwd {:?}", escape(&got_cwd), mine);
                }
                ensure!(d["pid"].as_i64() == Some(i64::from(pid)), "spawn|pid differs", "Child::get_pid {pid}, child saw {:?}", d["pid"]);
                ensure!(d["ppid"].as_i64() == Some(i64::from(parent_pid)), "spawn|not a child of the caller", "child's parent is {:?}, caller is {parent_pid}", d["ppid"]);
                if c.pgroup {
                    ensure!(d["pgid"].as_i64() == Some(i64::from(pid)), "spawn|process group differs", "pgroup(0) configured, child pgid {:?}, pid {pid}", d["pgid"]);
                } else {
                    let mine = unsafe { libc::getpgid(0) };
                    ensure!(d["pgid"].as_i64() == Some(i64::from(mine)), "spawn|process group changed without being configured", "child pgid {:?}, parent pgid {mine}", d["pgid"]);
                }
                ensure!(d["uid"].as_u64() == Some(u64::from(uid)) && d["gid"].as_u64() == Some(u64::from(gid)), "spawn|ids differ", "uid/gid {:?}/{:?}", d["uid"], d["gid"]);
                if c.stdio[0] == 3 {
                    ensure!(unhex(d["stdin"].as_str().unwrap()) == b"IN", "spawn|stdin pipe not connected to the child", "child read {:?} from stdin, parent wrote \"IN\"", d["stdin"]);
                }
                // the configured streams are usable in their direction (Null: reads give EOF, writes succeed)
                for (i, key, what) in [(0usize, "in_res", "reading stdin"), (1, "out_res", "writing to stdout"), (2, "err_res", "writing to stderr")] {
                    if c.stdio[i] == 2 || c.stdio[i] == 3 {
                        let r = d[key].as_i64().unwrap_or(-1);
                        ensure!(r == 0, "spawn|configured stream unusable in the child", "{what} in the child failed with errno {r} (stream {i} mode {})", c.stdio[i]);
                    }
                }
                if c.stdio[0] == 2 {
                    ensure!(unhex(d["stdin"].as_str().unwrap()).is_empty(), "spawn|Null stdin delivered data", "child read {:?} from a Null stdin", d["stdin"]);
                }
                // descriptors in the child: exactly 0,1,2 (+ what the helper opened itself)
                let fds = d["fds"].as_array().unwrap();
                let mut nums: Vec<i64> = fds.iter().map(|f| f["fd"].as_i64().unwrap()).collect();
                nums.sort_unstable();
                let extra: Vec<i64> = nums.iter().copied().filter(|&n| n > 2).collect();
                ensure!(extra.is_empty(), "spawn|descriptor leaked into the child", "child has descriptors {nums:?}; beyond 0,1,2: {:?}", fds.iter().filter(|f| f["fd"].as_i64().unwrap() > 2).map(|f| format!("{}->{}", f["fd"], String::from_utf8_lossy(&unhex(f["link"].as_str().unwrap())))).collect::<Vec<_>>());
                for i in 0..3usize {
                    let f = fds.iter().find(|f| f["fd"].as_i64() == Some(i as i64));
                    let Some(f) = f else {
                        if c.closed[i] && c.stdio[i] <= 1 {
                            continue;
                        }
                        fail!("spawn|standard stream closed in the child", "fd {i} is not open in the child although stream {i} was configured");
                    };
                    let (dev, ino, rdev) = (f["dev"].as_u64().unwrap(), f["ino"].as_u64().unwrap(), f["rdev"].as_u64().unwrap());
                    match c.stdio[i] {
                        2 => {
                            let m = std::fs::metadata("/dev/null").unwrap();
                            ensure!(rdev == m.rdev(), "spawn|Null stream is not /dev/null", "fd {i} in the child is {}", String::from_utf8_lossy(&unhex(f["link"].as_str().unwrap())));
                        }
                        4 => {
                            let id = &raw[i].as_ref().unwrap().1;
                            ensure!(dev == id.dev && ino == id.ino, "spawn|RawFd stream differs", "fd {i} in the child is not the descriptor that was passed");
                        }
                        0 | 1 if c.closed[i] => {
                            // inherited a closed descriptor: nothing configured, nothing to compare
                        }
                        0 | 1 => {
                            let mine = fstat_ident(i as i32).unwrap();
                            ensure!(dev == mine.dev && ino == mine.ino, "spawn|inherited stream differs", "fd {i} in the child is not the parent's fd {i}");
                        }
                        _ => {}
                    }
                }
                rep.class("ok-dump-verified");
                Ok(())
            }
            (Ok(mut child), Some((step, e))) => {
                let _ = child.wait();
                if read_fault {
                    return Ok(());
                }
                Err(Failure::new(format!("spawn|Ok although {step} failed"), format!("spawn returned Ok(child) although {step} failed with errno {e:?}; dump present: {}", dump_path.exists())))
            }
            (Err(e), Some(_)) if any_closed && errno_of(&e) == Some(libc::EINVAL) => {
                // the dup2(n, n) rejection precedes the step that was expected to fail
                rep.class("closed-std-fd:dup-einval");
                Ok(())
            }
            (Err(_), Some(_)) if read_fault => {
                rep.class("sync-pipe-read-error");
                Ok(())
            }
            (Err(e), Some((step, want))) => {
                let got = errno_of(&e);
                ensure!(got == *want, format!("spawn|wrong errno for failing {step}"), "{step} failed with errno {want:?}, spawn returned {e}");
                ensure!(!dump_path.exists() || step == "execve-after", "spawn|program ran although spawn failed", "the helper ran although {step} failed");
                rep.class("err-step-errno-verified");
                Ok(())
            }
            (Err(e), None) if any_closed && errno_of(&e) == Some(libc::EINVAL) => {
                // with a standard descriptor closed in the caller, the child's end of a stream can
                // already sit on its target number; dup2(n, n) is rejected by DUP3 with EINVAL and
                // spawn reports that step's errno: a clean failure
                rep.class("closed-std-fd:dup-einval");
                Ok(())
            }
            (Err(e), None) => {
                if read_fault {
                    rep.class("sync-pipe-read-error");
                    return Ok(());
                }
                Err(Failure::new("spawn|spurious failure", format!("every step can succeed but spawn returned {e}")))
            }
        }
    };
    let first_ok = result.is_ok();
    let mut outcome = judge(result, rep);
    // a Command is reusable: a second spawn of the same value must behave exactly like the first
    // (not with RawFd streams: spawn closes those descriptors; not under fault plans, which are spent)
    if outcome.is_ok() && first_ok && expect_err.is_none() && c.fault == Fault::None && !c.stdio.contains(&4) {
        let _ = std::fs::remove_file(&dump_path);
        let again = no_panic("Command::spawn (second spawn of the same Command)", || cmd.spawn());
        if unsafe { libc::getpid() } != parent_pid {
            unsafe {
                libc::write(mp[1], b"X".as_ptr().cast(), 1);
                libc::_exit(0);
            }
        }
        outcome = match again {
            Ok(r) => judge(r, rep).map_err(|f| Failure::new(format!("{} (second spawn of the same Command)", f.sig), f.what)),
            Err(f) => Err(f),
        };
        rep.class("command-reused");
    }
    // ... and a Command whose spawn FAILED (at a step that was made to fail once) can be
    // completed and spawned again: the child then sees every argument, old and new
    let plan_fault = matches!(c.fault, Fault::Pipe2(..) | Fault::OpenNull(..) | Fault::Fork(..) | Fault::Dup(..) | Fault::Chdir(..) | Fault::Setuid(..) | Fault::Setgid(..) | Fault::Setpgid(..) | Fault::Execve(..));
    let persistent = c.prog != 0 || c.cwd == 2 || c.closures.iter().any(|&x| x != 0) || bad_uid || bad_gid;
    if outcome.is_ok() && !first_ok && expect_err.is_some() && plan_fault && !persistent && !read_fault && !c.stdio.contains(&4) && !any_closed {
        let _ = std::fs::remove_file(&dump_path);
        let r: &UnixStr = &extra_arg;
        cmd.arg(r);
        argv_cell.borrow_mut().push(b"added-after-the-failed-spawn".to_vec());
        *expect_cell.borrow_mut() = None;
        let again = no_panic("Command::spawn (after a failed spawn, one argument added)", || cmd.spawn());
        if unsafe { libc::getpid() } != parent_pid {
            unsafe {
                libc::write(mp[1], b"X".as_ptr().cast(), 1);
                libc::_exit(0);
            }
        }
        outcome = match again {
            Ok(r) => judge(r, rep).map_err(|f| Failure::new(format!("{} (spawn after a failed spawn, one argument added)", f.sig), f.what)),
            Err(f) => Err(f),
        };
        rep.class("command-reused-after-failed-spawn");
    }

    if let Some(what) = own_pipe_watch.and_then(OwnPipeWatch::finish) {
        outcome = Err(Failure::new("spawn|never completes|the caller waits on a pipe whose write end it holds itself", format!("Command::spawn / reading the child's pipes with the caller's own descriptors {:?} closed: {what}", (0..3).filter(|&i| c.closed[i]).collect::<Vec<_>>())));
    }
    // restore the caller's own standard descriptors (the Child value and its pipes are gone by now)
    for i in 0..3 {
        if saved[i] >= 0 {
            unsafe {
                libc::dup2(saved[i], i as i32);
                libc::close(saved[i]);
            }
        }
    }
    // marker check (after everything is reaped by the caller)
    let mut b = [0u8; 8];
    let n = unsafe { libc::read(mp[0], b.as_mut_ptr().cast(), 8) };
    unsafe {
        libc::close(mp[0]);
        libc::close(mp[1]);
    }
    let mut seen_raw: Vec<i32> = Vec::new();
    for r in raw.iter().flatten() {
        if seen_raw.contains(&r.0) {
            rep.class("one-rawfd-shared-by-several-streams");
            continue;
        }
        seen_raw.push(r.0);
        // ownership of RawFd is undocumented: close it if spawn did not
        if unsafe { libc::fcntl(r.0, libc::F_GETFD) } >= 0 {
            rep.class("rawfd-left-open-by-spawn");
            unsafe { libc::close(r.0) };
        } else {
            rep.class("rawfd-closed-by-spawn");
        }
    }
    if n > 0 {
        return Err(Failure::new("spawn|returned in the child process", format!("spawn returned in {n} process(es) other than the caller (failing step: {:?})", expect_err)));
    }
    outcome?;
    let knobs = usize::from(c.cwd != 0) + usize::from(c.pgroup) + usize::from(c.ids) + c.stdio.iter().filter(|&&s| s != 0).count() + usize::from(c.env.is_some()) + usize::from(!c.args.is_empty()) + c.closures.len();
    rep.nontrivial_if(knobs >= 1);
    if let Some((step, _)) = &expect_err {
        rep.class(match step.as_str() {
            "pipe2" => "fail-pipe2",
            "open /dev/null" => "fail-open-null",
            "fork" => "fail-fork",
            "fcntl" => "fail-fcntl-lifting-a-descriptor-above-stdio",
            "dup2" => "fail-child-dup2",
            "chdir" => "fail-child-chdir",
            "setuid" => "fail-child-setuid",
            "setgid" => "fail-child-setgid",
            "setpgid" => "fail-child-setpgid",
            "pre_exec closure" => "fail-child-closure",
            _ => "fail-child-execve",
        });
    }
    rep.class_if(matches!(c.fault, Fault::ReadEintr(n) if n > 0), "sync-read-eintr");
    rep.class_if(c.stdio.iter().any(|&s| s == 3), "stdio-pipe");
    rep.class_if(c.stdio.iter().any(|&s| s == 2), "stdio-null");
    rep.class_if(c.stdio.iter().any(|&s| s == 4), "stdio-rawfd");
    rep.class_if(any_closed, "caller-std-fd-closed");
    let _ = parent_std;
    Ok(())
}

fn arg_bytes() -> impl Strategy<Value = BStr> {
    prop_oneof![
        6 => prop::collection::vec(prop_oneof![6 => prop::sample::select(vec![b'a', b'-', b'=', b' ', b'/']), 1 => 1u8..=255u8], 0..12),
        1 => prop::collection::vec(1u8..=255u8, 200..2000),
    ]
    .prop_map(BStr)
}

fn env_entry() -> impl Strategy<Value = BStr> {
    (prop::collection::vec(prop::sample::select(vec![b'A', b'B', b'_', b'x']), 1..6), prop::collection::vec(prop_oneof![5 => prop::sample::select(vec![b'v', b'=', b' ', b'/']), 1 => 1u8..=255u8], 0..10)).prop_map(|(mut k, v)| {
        k.push(b'=');
        k.extend(v);
        BStr(k)
    })
}

/// The plausible errnos of the step, and now and then ANY errno - the statement promises "that step's
/// errno" whatever it is, and some codes have a meaning of their own elsewhere in the library (ETIMEDOUT,
/// EINTR, EAGAIN, EINPROGRESS)
fn errno_strategy(list: &'static [i32]) -> impl Strategy<Value = i32> {
    prop_oneof![
        6 => prop::sample::select(list.to_vec()),
        2 => prop::sample::select(vec![libc::ETIMEDOUT, libc::EINTR, libc::EAGAIN, libc::EINPROGRESS, libc::EALREADY, libc::EBUSY, libc::EIO]),
        1 => 1i32..=133,
    ]
}

fn fault_strategy() -> impl Strategy<Value = Fault> {
    prop_oneof![
        14 => Just(Fault::None),
        2 => (0u8..4, errno_strategy(&[libc::EMFILE, libc::ENFILE, libc::ENOMEM])).prop_map(|(k, e)| Fault::Pipe2(k, e)),
        1 => (0u8..3, errno_strategy(&[libc::EMFILE, libc::ENFILE, libc::ENOMEM, libc::EACCES])).prop_map(|(k, e)| Fault::OpenNull(k, e)),
        2 => errno_strategy(&[libc::EAGAIN, libc::ENOMEM]).prop_map(Fault::Fork),
        2 => (0u8..4, errno_strategy(&[libc::EMFILE, libc::EINVAL])).prop_map(|(k, e)| Fault::Fcntl(k, e)),
        1 => (1u8..4).prop_map(Fault::ReadEintr),
        // (EBUSY is the one errno dup2 is documented to retry on: a single injected EBUSY is absorbed, not reported)
        2 => (0u8..3, errno_strategy(&[libc::EMFILE, libc::EINTR, libc::EBADF])).prop_map(|(k, e)| Fault::Dup(k, if e == libc::EBUSY { libc::EIO } else { e })),
        2 => errno_strategy(&[libc::EACCES, libc::ENOENT, libc::ENOTDIR, libc::EIO]).prop_map(Fault::Chdir),
        1 => errno_strategy(&[libc::EPERM, libc::EAGAIN]).prop_map(Fault::Setuid),
        1 => errno_strategy(&[libc::EPERM]).prop_map(Fault::Setgid),
        1 => errno_strategy(&[libc::EPERM, libc::EACCES, libc::ESRCH]).prop_map(Fault::Setpgid),
        2 => errno_strategy(&[libc::ENOENT, libc::EACCES, libc::ENOEXEC, libc::ENOMEM, libc::E2BIG, libc::ETXTBSY]).prop_map(Fault::Execve),
    ]
}

pub fn case_strategy() -> impl Strategy<Value = SpawnCase> {
    (
        prop_oneof![14 => Just(0u8), 1 => Just(1u8), 1 => Just(2u8)],
        prop::collection::vec(arg_bytes(), 0..12),
        prop_oneof![1 => Just(None), 2 => prop::collection::vec(env_entry(), 0..12).prop_map(Some)],
        prop_oneof![5 => Just(0u8), 4 => Just(1u8), 1 => Just(2u8)],
        any::<bool>(),
        any::<bool>(),
        [0u8..5, 0u8..5, 0u8..5],
        prop::collection::vec(prop_oneof![9 => Just(0u8), 1 => prop::sample::select(vec![2u8, 13, 5, 1])], 0..3),
        any::<u8>(),
        fault_strategy(),
        (prop_oneof![5 => Just([false; 3]), 1 => [any::<bool>(), any::<bool>(), any::<bool>()]], prop_oneof![2 => Just(0u8), 2 => Just(1u8), 1 => Just(2u8)]),
    )
        .prop_map(|(prog, args, env, cwd, pgroup, ids, stdio, closures, exit_code, fault, (closed, wait_mode))| {
            // the closed-descriptor knob is combined only with fault-free runs of the helper
            // (and with the failing lift of a descriptor, which only happens then: there at least one is closed)
            let closed = match fault {
                Fault::None if prog == 0 => closed,
                Fault::Fcntl(..) if prog == 0 => {
                    if closed.iter().any(|&b| b) {
                        closed
                    } else {
                        [exit_code & 1 == 0, exit_code & 2 != 0 || exit_code & 1 != 0, exit_code & 4 != 0]
                    }
                }
                _ => [false; 3],
            };
            SpawnCase { prog, args, env, cwd, pgroup, ids, stdio, closures, exit_code, fault, closed, wait_mode, keep_stdin: exit_code % 2 == 0, feed: vec![], shared_raw: exit_code % 3 == 0 }
        })
        .prop_flat_map(|c| (Just(c), prop_oneof![2 => Just(vec![]), 3 => prop::collection::vec(0u8..5, 1..6)]))
        .prop_map(|(mut c, feed)| {
            c.feed = feed;
            c
        })
}

// ------------------------------------------------------------------------------------------
// `start` feature carrier: Environment::Inherit needs a real start-up (no-libc probe)
// ------------------------------------------------------------------------------------------

#[derive(Debug, Clone, Serialize, Deserialize)]
pub struct InheritCase {
    /// environment block the probe is started with (raw entries)
    pub envp: Vec<BStr>,
    /// extra arguments handed through to the helper
    pub args: Vec<BStr>,
    /// false: environment untouched (Inherit); true: two provided entries, nothing inherited
    pub provided: bool,
    pub exit_code: u8,
    /// which probe build: 0 dyn-debug, 1 pie-release
    pub build: u8,
}

fn probe_path(build: u8) -> std::path::PathBuf {
    let root = vh::runner::verif_root();
    let (mode, prof) = if build == 0 { ("dyn-debug", "debug") } else { ("pie-release", "release") };
    std::path::PathBuf::from(format!("{root}/probes/target-{mode}/x86_64-unknown-linux-gnu/{prof}/probe-spawn"))
}

pub fn check_inherit(ctx: &Ctx, c: &InheritCase) -> CaseResult {
    let mut rep = CaseReport::new();
    let probe = probe_path(c.build);
    if !probe.exists() {
        return Err(Failure::new("harness|probe-spawn missing", format!("{}", probe.display())));
    }
    let root = std::path::PathBuf::from(format!("/tmp/verif-c13i-{}-{}", std::process::id(), ctx.worker));
    let _ = std::fs::remove_dir_all(&root);
    std::fs::create_dir_all(&root).unwrap();
    let dump = root.join("dump.json");
    let helper = helper_path();
    let mut argv_model: Vec<Vec<u8>> = vec![helper.as_os_str().as_bytes().to_vec(), dump.as_os_str().as_bytes().to_vec(), c.exit_code.to_string().into_bytes(), b"-".to_vec()];
    argv_model.extend(c.args.iter().map(|a| a.0.clone()));
    let cstr = |b: &[u8]| std::ffi::CString::new(b.to_vec()).unwrap();
    let mut argv_c: Vec<std::ffi::CString> = vec![cstr(if c.provided { b"probe-p" } else { b"probe-i" })];
    argv_c.extend(argv_model.iter().map(|a| cstr(a)));
    let envp_c: Vec<std::ffi::CString> = c.envp.iter().map(|e| cstr(&e.0)).collect();
    let mut argv_p: Vec<*mut libc::c_char> = argv_c.iter().map(|s| s.as_ptr() as *mut libc::c_char).collect();
    argv_p.push(core::ptr::null_mut());
    let mut envp_p: Vec<*mut libc::c_char> = envp_c.iter().map(|s| s.as_ptr() as *mut libc::c_char).collect();
    envp_p.push(core::ptr::null_mut());
    let path = cstr(probe.as_os_str().as_bytes());
    let mut pid: libc::pid_t = 0;
    let rc = unsafe { libc::posix_spawn(&mut pid, path.as_ptr(), core::ptr::null(), core::ptr::null(), argv_p.as_ptr(), envp_p.as_ptr()) };
    if rc != 0 {
        let _ = std::fs::remove_dir_all(&root);
        return Err(Failure::new("harness|posix_spawn failed", format!("errno {rc}")));
    }
    let mut st = 0;
    unsafe { libc::waitpid(pid, &mut st, 0) };
    let res = (|| -> Result<(), Failure> {
        ensure!(libc::WIFEXITED(st), "spawn (start feature)|probe crashed", "probe-spawn ended with wait status {st:#x}");
        let code = libc::WEXITSTATUS(st);
        ensure!(code != 250, "spawn (start feature)|spurious failure", "Command::spawn of the helper failed inside the probe");
        ensure!(code == i32::from(c.exit_code), "spawn (start feature)|wrong exit status", "probe reports child status {code}, helper was asked to exit with {}", c.exit_code);
        let txt = std::fs::read_to_string(&dump).map_err(|e| Failure::new("spawn (start feature)|child did not run the requested program", format!("no dump: {e}")))?;
        let d: serde_json::Value = serde_json::from_str(&txt).map_err(|e| Failure::new("harness|dump parse", e.to_string()))?;
        let got_args: Vec<Vec<u8>> = d["args"].as_array().unwrap().iter().map(|a| unhex(a.as_str().unwrap())).collect();
        ensure!(got_args == argv_model, "spawn (start feature)|argv differs", "child saw argv {:?}, configured {:?}", got_args.iter().map(|a| escape(a)).collect::<Vec<_>>(), argv_model.iter().map(|a| escape(a)).collect::<Vec<_>>());
        let raw = unhex(d["raw_env"].as_str().unwrap());
        let got: Vec<Vec<u8>> = if raw.is_empty() { vec![] } else { raw[..raw.len() - usize::from(raw.last() == Some(&0))].split(|&b| b == 0).map(|s| s.to_vec()).collect() };
        let want: Vec<Vec<u8>> = if c.provided { vec![b"P1=one".to_vec(), b"P2=".to_vec()] } else { c.envp.iter().map(|e| e.0.clone()).collect() };
        // an empty entry cannot be told apart in the NUL-separated /proc view: compare without them
        let norm = |v: &Vec<Vec<u8>>| v.iter().filter(|e| !e.is_empty()).cloned().collect::<Vec<_>>();
        ensure!(norm(&got) == norm(&want), if c.provided { "spawn (start feature)|provided environment differs" } else { "spawn (start feature)|inherited environment differs" }, "child environment {:?}, expected {:?}", got.iter().map(|a| escape(a)).collect::<Vec<_>>(), want.iter().map(|a| escape(a)).collect::<Vec<_>>());
        Ok(())
    })();
    let _ = std::fs::remove_dir_all(&root);
    res?;
    rep.nontrivial_if(!c.envp.is_empty());
    rep.class(if c.provided { "provided-under-start" } else { "inherit-under-start" });
    rep.class(if c.build == 0 { "probe-dyn-debug" } else { "probe-pie-release" });
    rep.class_if(c.envp.iter().any(|e| !e.0.contains(&b'=')), "entry-without-equals");
    Ok(rep)
}

fn inherit_strategy() -> impl Strategy<Value = InheritCase> {
    let raw_entry = prop_oneof![
        6 => env_entry(),
        1 => prop::collection::vec(prop::sample::select(vec![b'A', b'x', b'_']), 1..5).prop_map(BStr),
        1 => prop::collection::vec(1u8..=255u8, 1..40).prop_map(BStr),
    ];
    (prop::collection::vec(raw_entry, 0..20), prop::collection::vec(arg_bytes(), 0..6), prop::bool::weighted(0.3), any::<u8>(), 0u8..2).prop_map(|(envp, args, provided, exit_code, build)| {
        // 250..=252 are the probe's own failure codes
        let exit_code = if exit_code >= 250 { exit_code - 10 } else { exit_code };
        InheritCase { envp, args, provided, exit_code, build }
    })
}

pub fn run(ctx: &Ctx) {
    // the pipe configurations in which `wait` is called with the stdin pipe still inside the Child
    if let Some(c) = ctx.replay_case::<SpawnCase>("spawn-kept-stdin") {
        ctx.run_one("spawn-kept-stdin", &c, || check_spawn(ctx, &c));
    } else if !ctx.is_replay() {
        let mut k = 0u32;
        for out in [0u8, 1, 2] {
            for err in [0u8, 1] {
                for exit_code in [0u8, 6] {
                    if k % ctx.nworkers == ctx.worker {
                        let c = SpawnCase { prog: 0, args: vec![], env: None, cwd: 0, pgroup: false, ids: false, stdio: [3, out, err], closures: vec![], exit_code, fault: Fault::None, closed: [false; 3], wait_mode: 0, keep_stdin: true, feed: vec![], shared_raw: false };
                        if !ctx.run_one("spawn-kept-stdin", &c, || check_spawn(ctx, &c)) {
                            break;
                        }
                    }
                    k += 1;
                }
            }
        }
    }
    ctx.run_prop("spawn", ctx.cases(250, 8000), case_strategy(), |c| check_spawn(ctx, c));
    // only the `start` binary drives the start-up carrier
    let me = std::env::current_exe().ok().and_then(|p| p.file_name().map(|n| n.to_string_lossy().to_string())).unwrap_or_default();
    if me == "c13" {
        ctx.run_prop("start-probe", ctx.cases(60, 3000), inherit_strategy(), |c| check_inherit(ctx, c));
    }
}
