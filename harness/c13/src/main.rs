//! Harness binary for property C13. `c13 C13 [--seed N --worker I --nworkers N --tier T --out F --replay F]`.
mod check;

fn main() {
    vh::runner::main_for(|ctx| check::run(ctx));
}
