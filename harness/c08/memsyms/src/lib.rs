//! C08 carrier (i): the repository's `tiny-start/src/symbols/mem.rs`, textually included (see
//! build.rs), compiled exactly like tiny-start compiles it: `#![no_std]` + `#![no_builtins]`
//! (LLVM must not turn the loops back into calls to mem* - here that would silently test libc).
//!
//! The repository functions are `#[inline(always)]`; in tiny-start `#[no_mangle]` forces them to be
//! code-generated inside the `no_builtins` crate. With the attribute stripped they would instead
//! be instantiated in the *calling* crate (which is not `no_builtins`). The `#[inline(never)]`
//! non-generic wrappers below pin code generation to this crate; the included module is private
//! so nothing else can instantiate it.
#![no_std]
#![no_builtins]
#![allow(unfulfilled_lint_expectations, unknown_lints, dead_code, clippy::all, clippy::pedantic)]

mod ts {
    include!(concat!(env!("OUT_DIR"), "/mem.rs"));
}

mod origin {
    include!(concat!(env!("OUT_DIR"), "/origin.rs"));
}

/// Path of the file the code was taken from and the number of `#[no_mangle]` attributes removed.
pub const ORIGIN: &str = origin::ORIGIN;
pub const NO_MANGLE_STRIPPED: usize = origin::NO_MANGLE_STRIPPED;

/// # Safety
/// As C `memcpy`.
#[inline(never)]
pub unsafe extern "C" fn ts_memcpy(dest: *mut u8, src: *const u8, n: usize) -> *mut u8 {
    ts::memcpy(dest, src, n)
}

/// # Safety
/// As C `memmove`.
#[inline(never)]
pub unsafe extern "C" fn ts_memmove(dest: *mut u8, src: *const u8, n: usize) -> *mut u8 {
    ts::memmove(dest, src, n)
}

/// # Safety
/// As C `memset`.
#[inline(never)]
pub unsafe extern "C" fn ts_memset(s: *mut u8, c: core::ffi::c_int, n: usize) -> *mut u8 {
    ts::memset(s, c, n)
}

/// # Safety
/// As C `memcmp`.
#[inline(never)]
pub unsafe extern "C" fn ts_memcmp(s1: *const u8, s2: *const u8, n: usize) -> i32 {
    ts::memcmp(s1, s2, n)
}

/// # Safety
/// As `bcmp`.
#[inline(never)]
pub unsafe extern "C" fn ts_bcmp(s1: *const u8, s2: *const u8, n: usize) -> i32 {
    ts::bcmp(s1, s2, n)
}
