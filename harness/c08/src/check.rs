//! C08 — memcpy/memmove/memset/memcmp/bcmp of tiny-start match C for every length, alignment and
//! overlap, and never write outside the destination. Carrier (i): the repository's
//! `tiny-start/src/symbols/mem.rs` compiled in `memsyms` (see memsyms/build.rs).
//!
//! Oracle. Every operand lives in a *region* that exists twice with identical initial bytes:
//! the actual one inside a slab whose first and last byte abut PROT_NONE pages, and a model
//! (`Vec<u8>`). The function under test runs on the actual region, a byte-loop reference built on
//! `read_volatile`/`write_volatile` (cannot be turned into a mem* call) runs on the model, then
//! the two regions are compared byte for byte - destination, source, padding and the 64-byte red
//! zones on both sides alike. So one comparison decides: destination contents, "source unchanged"
//! (non-overlapping copies), "no byte outside the destination written". Operands placed at the
//! end (start) of a slab END (START) exactly at a PROT_NONE page: an access outside the operand
//! on that side faults, the worker dies and the orchestrator's crash policy reports it.
use proptest::prelude::*;
use serde::{Deserialize, Serialize};

#[path = "probe.rs"]
mod probe; // carrier (ii): the no-libc executable probe-mem

use vh::runner::{CaseReport, CaseResult, Ctx, Failure};
use vh::util::{Guarded, PAGE};
use vh::{ensure, fail};

/// red zone on each side of a payload
const RZ: usize = 64;
/// largest n of the sampled sub-checks
const MAX_N: usize = 1 << 20;
/// slab size (multiple of PAGE, so both slab ends abut PROT_NONE pages)
const CAP: usize = 3 << 20;
/// start offset of a `Mid` region inside its slab (multiple of 64)
const MID: usize = 2 * PAGE;

// ------------------------------------------------------------------------------------ cases

#[derive(Serialize, Deserialize, Clone, Copy, Debug, PartialEq, Eq)]
pub enum At {
    /// in the middle of a slab, 64-byte red zones on both sides, free misalignment
    Mid,
    /// payload ends exactly at the PROT_NONE page after the slab (red zone in front)
    End,
    /// payload starts exactly after the PROT_NONE page in front of the slab (red zone behind)
    Start,
}

#[derive(Serialize, Deserialize, Clone, Copy, Debug, PartialEq, Eq)]
pub enum CopyOp {
    Memcpy,
    Memmove,
}

/// Non-overlapping copy: destination and source in different slabs.
#[derive(Serialize, Deserialize, Clone, Debug)]
pub struct CopyCase {
    pub op: CopyOp,
    pub n: usize,
    /// misalignment of dest / src relative to 16 (only honoured for `At::Mid`)
    pub dmis: u8,
    pub smis: u8,
    pub dst_at: At,
    pub src_at: At,
    /// which slab holds the destination (address order of the operands)
    pub swap: bool,
    pub salt: u8,
}

/// memmove with both operands inside one buffer; `delta` = dest - src in bytes.
#[derive(Serialize, Deserialize, Clone, Debug)]
pub struct MoveCase {
    pub n: usize,
    pub delta: i64,
    /// misalignment of the lower operand (only for `At::Mid`)
    pub mis: u8,
    pub at: At,
    pub salt: u8,
}

#[derive(Serialize, Deserialize, Clone, Debug)]
pub struct SetCase {
    pub n: usize,
    /// the `int c` argument as passed (C converts it to unsigned char)
    pub c: i32,
    pub mis: u8,
    pub at: At,
    pub salt: u8,
}

#[derive(Serialize, Deserialize, Clone, Debug)]
pub struct CmpCase {
    pub n: usize,
    /// index of the first differing byte; None = the operands are equal
    pub pos: Option<usize>,
    /// s1[pos] = a, s2[pos] = b (a != b)
    pub a: u8,
    pub b: u8,
    pub m1: u8,
    pub m2: u8,
    pub at1: At,
    pub at2: At,
    pub salt: u8,
}

// ------------------------------------------------------------------------------------ references

unsafe fn ref_memcpy(d: *mut u8, s: *const u8, n: usize) {
    let mut i = 0;
    while i < n {
        d.add(i).write_volatile(s.add(i).read_volatile());
        i += 1;
    }
}

unsafe fn ref_memmove(d: *mut u8, s: *const u8, n: usize) {
    if (d as usize) <= (s as usize) {
        ref_memcpy(d, s, n);
    } else {
        let mut i = n;
        while i > 0 {
            i -= 1;
            d.add(i).write_volatile(s.add(i).read_volatile());
        }
    }
}

unsafe fn ref_memset(d: *mut u8, c: i32, n: usize) {
    // C11 7.24.6.1: "copies the value of c (converted to an unsigned char)"
    let v = c as u8;
    let mut i = 0;
    while i < n {
        d.add(i).write_volatile(v);
        i += 1;
    }
}

/// C11 7.24.4: the sign is that of the difference of the first differing pair, both
/// interpreted as unsigned char. Returns -1/0/1.
unsafe fn ref_memcmp(a: *const u8, b: *const u8, n: usize) -> i32 {
    let mut i = 0;
    while i < n {
        let x = a.add(i).read_volatile();
        let y = b.add(i).read_volatile();
        if x != y {
            return if x < y { -1 } else { 1 };
        }
        i += 1;
    }
    0
}

// ------------------------------------------------------------------------------------ world

#[derive(Clone, Copy, Default)]
struct Reg {
    off: usize,
    len: usize,
    used: bool,
}

pub struct World {
    slabs: [Guarded; 2],
    models: [Vec<u8>; 2],
    regs: [Reg; 2],
}

/// Where a mismatch between actual and model memory lies relative to the destination.
struct Mismatch {
    reg: usize,
    off: usize,
    got: u8,
    want: u8,
}

impl World {
    pub fn new() -> World {
        World { slabs: [Guarded::at_end(CAP), Guarded::at_end(CAP)], models: [Vec::new(), Vec::new()], regs: [Reg::default(); 2] }
    }

    fn reset(&mut self) {
        self.regs = [Reg::default(); 2];
    }

    /// Position region `r` (length `len`) in slab `r` and fill actual and model with the same
    /// pattern: consecutive bytes always differ, period 251*256.
    fn place(&mut self, r: usize, at: At, len: usize, salt: u8) {
        assert!(MID + len <= CAP - PAGE, "region too large");
        let off = match at {
            At::Mid => MID,
            At::Start => 0,
            At::End => CAP - len,
        };
        self.regs[r] = Reg { off, len, used: true };
        let m = &mut self.models[r];
        m.clear();
        m.resize(len, 0);
        let act = unsafe { self.slabs[r].as_ptr().add(off) };
        let mut a: u8 = 0;
        let mut b: u8 = 0;
        for (j, mb) in m.iter_mut().enumerate() {
            let v = a.wrapping_add(b).wrapping_add(salt);
            *mb = v;
            unsafe { act.add(j).write(v) };
            a += 1;
            if a == 251 {
                a = 0;
                b = b.wrapping_add(29);
            }
        }
    }

    fn act(&self, r: usize, off: usize) -> *mut u8 {
        debug_assert!(off <= self.regs[r].len);
        unsafe { self.slabs[r].as_ptr().add(self.regs[r].off + off) }
    }

    fn mdl(&mut self, r: usize, off: usize) -> *mut u8 {
        debug_assert!(off <= self.regs[r].len);
        unsafe { self.models[r].as_mut_ptr().add(off) }
    }

    /// Write one byte to the actual and the model region.
    fn poke(&mut self, r: usize, off: usize, v: u8) {
        assert!(off < self.regs[r].len);
        self.models[r][off] = v;
        unsafe { self.act(r, off).write(v) };
    }

    /// dest[i] = !src[i] in both copies, so that every byte of a correct copy changes dest.
    fn invert_from(&mut self, rd: usize, doff: usize, rs: usize, soff: usize, n: usize) {
        assert!(doff + n <= self.regs[rd].len && soff + n <= self.regs[rs].len);
        for i in 0..n {
            let v = !self.models[rs][soff + i];
            self.models[rd][doff + i] = v;
            unsafe { self.act(rd, doff + i).write(v) };
        }
    }

    /// Compare every used region with its model. `dst` = (region, offset, n) of the destination
    /// range (None: the operation has no destination, any difference is an illegal write).
    fn verify(&self, op: &str, dst: Option<(usize, usize, usize)>, shape: &str, descr: &dyn Fn() -> String) -> Result<(), Failure> {
        let mut outside: Option<Mismatch> = None;
        let mut inside: Option<Mismatch> = None;
        let mut n_out = 0usize;
        let mut n_in = 0usize;
        for r in 0..2 {
            let reg = self.regs[r];
            if !reg.used {
                continue;
            }
            let act = unsafe { core::slice::from_raw_parts(self.slabs[r].as_ptr().add(reg.off) as *const u8, reg.len) };
            let mdl = &self.models[r][..];
            if act == mdl {
                continue;
            }
            for j in 0..reg.len {
                if act[j] != mdl[j] {
                    let is_in = matches!(dst, Some((dr, doff, n)) if dr == r && j >= doff && j < doff + n);
                    let mm = Mismatch { reg: r, off: j, got: act[j], want: mdl[j] };
                    if is_in {
                        n_in += 1;
                        inside.get_or_insert(mm);
                    } else {
                        n_out += 1;
                        outside.get_or_insert(mm);
                    }
                }
            }
        }
        if let Some(m) = outside {
            let (wherep, rel) = match dst {
                Some((dr, doff, n)) if dr == m.reg => {
                    if m.off < doff {
                        ("before-start", format!("{} byte(s) before dest[0]", doff - m.off))
                    } else {
                        ("after-end", format!("{} byte(s) past dest[n-1]", m.off + 1 - (doff + n)))
                    }
                }
                Some(_) => ("other-buffer", format!("offset {} of the buffer that does not hold the destination", m.off)),
                None => ("operand", format!("offset {} of operand buffer {}", m.off, m.reg)),
            };
            let cls = if dst.is_some() { "wrote-outside-dest" } else { "modified-operand" };
            fail!(format!("{op}|{cls}|{wherep}"), "{}: {} byte(s) outside the destination range changed; first: {} now {:#04x}, must stay {:#04x} ({} destination bytes also wrong)", descr(), n_out, rel, m.got, m.want, n_in);
        }
        if let Some(m) = inside {
            let (_, doff, _) = dst.unwrap();
            fail!(format!("{op}|dest-wrong|{shape}"), "{}: {} destination byte(s) wrong; first: dest[{}] = {:#04x}, expected {:#04x}", descr(), n_in, m.off - doff, m.got, m.want);
        }
        Ok(())
    }
}

/// (region length, payload offset) of one operand of length n.
fn operand_region(at: At, mis: usize, n: usize) -> (usize, usize) {
    match at {
        At::Mid => (RZ + mis + n + RZ, RZ + mis),
        At::End => (RZ + n, RZ),
        At::Start => (n + RZ, 0),
    }
}

fn at_class(rep: &mut CaseReport, at: At) {
    match at {
        At::Mid => {}
        At::End => rep.class("ends-at-guard-page"),
        At::Start => rep.class("starts-at-guard-page"),
    }
}

const WORD: usize = core::mem::size_of::<usize>();

// ------------------------------------------------------------------------------------ checks

pub fn check_copy(w: &mut World, c: &CopyCase) -> CaseResult {
    let mut rep = CaseReport::new();
    let n = c.n.min(MAX_N);
    let dmis = if c.dst_at == At::Mid { (c.dmis & 63) as usize } else { 0 };
    let smis = if c.src_at == At::Mid { (c.smis & 63) as usize } else { 0 };
    let (rd, rs) = if c.swap { (1, 0) } else { (0, 1) };
    let (dlen, doff) = operand_region(c.dst_at, dmis, n);
    let (slen, soff) = operand_region(c.src_at, smis, n);
    w.reset();
    w.place(rd, c.dst_at, dlen, c.salt);
    w.place(rs, c.src_at, slen, c.salt.wrapping_add(0x5b));
    w.invert_from(rd, doff, rs, soff, n);

    let (md, ms) = (w.mdl(rd, doff), w.mdl(rs, soff) as *const u8);
    let (ad, asrc) = (w.act(rd, doff), w.act(rs, soff) as *const u8);
    let name = match c.op {
        CopyOp::Memcpy => "memcpy",
        CopyOp::Memmove => "memmove",
    };
    let ret = unsafe {
        ref_memcpy(md, ms, n); // disjoint: memmove == memcpy
        match c.op {
            CopyOp::Memcpy => memsyms::ts_memcpy(ad, asrc, n),
            CopyOp::Memmove => memsyms::ts_memmove(ad, asrc, n),
        }
    };
    let descr = || format!("{name}(dest={:#x} [..{:x}], src={:#x} [..{:x}], n={n}) {c:?}", ad as usize & 0xfff, ad as usize & 15, asrc as usize & 0xfff, asrc as usize & 15);
    ensure!(ret == ad, format!("{name}|wrong-return|"), "{}: returned {:p}, expected dest {:p}", descr(), ret, ad);
    let shape = if n < 16 { "n<16 disjoint" } else { "n>=16 disjoint" };
    w.verify(name, Some((rd, doff, n)), shape, &descr)?;

    let d_al = ad as usize % WORD;
    let s_al = asrc as usize % WORD;
    rep.nontrivial_if(n >= 16 && (ad as usize % 16 != 0 || asrc as usize % 16 != 0));
    rep.class_if(n == 0, "n=0");
    rep.class_if(n > 0 && n < 16, "byte-path");
    rep.class_if(n >= 16 && d_al == s_al, "word-path-coaligned");
    rep.class_if(n >= 16 && d_al != s_al, "word-path-src-misaligned");
    rep.class_if(n >= 16 && d_al != 0, "dest-unaligned-head");
    rep.class_if(n >= 65536, "large");
    rep.class_if((ad as usize) < (asrc as usize), "dest-below-src");
    rep.class_if((ad as usize) > (asrc as usize), "dest-above-src");
    match c.dst_at {
        At::End => rep.class("dest-ends-at-guard-page"),
        At::Start => rep.class("dest-starts-at-guard-page"),
        At::Mid => {}
    }
    match c.src_at {
        At::End => rep.class("src-ends-at-guard-page"),
        At::Start => rep.class("src-starts-at-guard-page"),
        At::Mid => {}
    }
    Ok(rep)
}

pub fn check_move(w: &mut World, c: &MoveCase) -> CaseResult {
    let mut rep = CaseReport::new();
    let n = c.n.min(MAX_N);
    let lim = (n + 64) as i64;
    let delta = c.delta.clamp(-lim, lim);
    let ad_ = delta.unsigned_abs() as usize;
    let mis = if c.at == At::Mid { (c.mis & 63) as usize } else { 0 };
    let (len, lower) = operand_region(c.at, mis, n + ad_);
    let (doff, soff) = if delta >= 0 { (lower + ad_, lower) } else { (lower, lower + ad_) };
    w.reset();
    w.place(0, c.at, len, c.salt);

    let (md, ms) = (w.mdl(0, doff), w.mdl(0, soff) as *const u8);
    let (ad, asrc) = (w.act(0, doff), w.act(0, soff) as *const u8);
    let ret = unsafe {
        ref_memmove(md, ms, n);
        memsyms::ts_memmove(ad, asrc, n)
    };
    let overlap = ad_ < n;
    let shape = match (n < 16, overlap, delta > 0) {
        (true, false, _) => "n<16 disjoint",
        (false, false, _) => "n>=16 disjoint",
        (true, true, true) => "n<16 overlap dest>src",
        (false, true, true) => "n>=16 overlap dest>src",
        (true, true, false) => "n<16 overlap dest<=src",
        (false, true, false) => "n>=16 overlap dest<=src",
    };
    let descr = || format!("memmove(dest=src{delta:+}, n={n}; dest&15={:x}, src&15={:x}) {c:?}", ad as usize & 15, asrc as usize & 15);
    ensure!(ret == ad, "memmove|wrong-return|", "{}: returned {:p}, expected dest {:p}", descr(), ret, ad);
    w.verify("memmove", Some((0, doff, n)), shape, &descr)?;

    rep.nontrivial_if((overlap && n > 0 && delta != 0) || (n >= 16 && (ad as usize % 16 != 0 || asrc as usize % 16 != 0)));
    rep.class_if(n == 0, "n=0");
    rep.class_if(delta == 0 && n > 0, "dest==src");
    rep.class_if(overlap && delta > 0, "overlap-dest-above-src");
    rep.class_if(overlap && delta < 0, "overlap-dest-below-src");
    rep.class_if(overlap && delta > 0 && n >= 16, "overlap-backward-word-path");
    rep.class_if(overlap && delta < 0 && n >= 16, "overlap-forward-word-path");
    rep.class_if(overlap && delta != 0 && ad_ < WORD && n >= 16, "overlap-closer-than-a-word");
    rep.class_if(!overlap && ad_ == n && n > 0, "adjacent");
    rep.class_if(!overlap, "disjoint");
    rep.class_if(n >= 16 && (ad as usize % WORD) != (asrc as usize % WORD), "word-path-src-misaligned");
    rep.class_if(n >= 65536, "large");
    at_class(&mut rep, c.at);
    Ok(rep)
}

pub fn check_set(w: &mut World, c: &SetCase) -> CaseResult {
    let mut rep = CaseReport::new();
    let n = c.n.min(MAX_N);
    let mis = if c.at == At::Mid { (c.mis & 63) as usize } else { 0 };
    let (len, off) = operand_region(c.at, mis, n);
    // the destination is pre-filled with !fill, so every byte a correct memset writes changes
    w.reset();
    w.place(0, c.at, len, c.salt);
    let fill = c.c as u8;
    for i in 0..n {
        w.poke(0, off + i, !fill);
    }
    let md = w.mdl(0, off);
    let ad = w.act(0, off);
    let ret = unsafe {
        ref_memset(md, c.c, n);
        memsyms::ts_memset(ad, c.c, n)
    };
    let descr = || format!("memset(s&15={:x}, c={:#x}, n={n}) {c:?}", ad as usize & 15, c.c);
    ensure!(ret == ad, "memset|wrong-return|", "{}: returned {:p}, expected s {:p}", descr(), ret, ad);
    let shape = if n < 16 { "n<16" } else { "n>=16" };
    w.verify("memset", Some((0, off, n)), shape, &descr)?;

    rep.nontrivial_if(n >= 16 && ad as usize % 16 != 0);
    rep.class_if(n == 0, "n=0");
    rep.class_if(n > 0 && n < 16, "byte-path");
    rep.class_if(n >= 16, "word-path");
    rep.class_if(n >= 16 && ad as usize % WORD != 0, "word-path-unaligned-head");
    rep.class_if(fill >= 0x80, "fill-high-bit");
    rep.class_if(c.c as u32 > 0xff, "c-wider-than-a-byte");
    rep.class_if(n >= 65536, "large");
    at_class(&mut rep, c.at);
    Ok(rep)
}

pub fn check_cmp(w: &mut World, c: &CmpCase) -> CaseResult {
    let mut rep = CaseReport::new();
    let n = c.n.min(MAX_N);
    let pos = c.pos.filter(|&p| p < n && c.a != c.b);
    let m1 = if c.at1 == At::Mid { (c.m1 & 63) as usize } else { 0 };
    let m2 = if c.at2 == At::Mid { (c.m2 & 63) as usize } else { 0 };
    let (l1, o1) = operand_region(c.at1, m1, n);
    let (l2, o2) = operand_region(c.at2, m2, n);
    w.reset();
    w.place(0, c.at1, l1, c.salt);
    w.place(1, c.at2, l2, c.salt.wrapping_add(0x5b));
    // s2 = s1 (common content, contains NUL bytes and bytes >= 0x80 from the pattern)
    for i in 0..n {
        let v = w.models[0][o1 + i];
        w.poke(1, o2 + i, v);
    }
    if let Some(p) = pos {
        w.poke(0, o1 + p, c.a);
        w.poke(1, o2 + p, c.b);
        // everything after the first difference differs the other way round
        let (t1, t2) = if c.a < c.b { (0xffu8, 0x00u8) } else { (0x00u8, 0xffu8) };
        for i in p + 1..n {
            w.poke(0, o1 + i, t1);
            w.poke(1, o2 + i, t2);
        }
    }
    // the bytes next to the operands differ between the two buffers (a comparison running one
    // byte too far, or starting one byte early, sees a difference)
    if c.at1 != At::Start && c.at2 != At::Start {
        w.poke(0, o1 - 1, 0x11);
        w.poke(1, o2 - 1, 0xee);
    }
    if c.at1 != At::End && c.at2 != At::End {
        w.poke(0, o1 + n, 0xee);
        w.poke(1, o2 + n, 0x11);
    }
    let (p1, p2) = (w.act(0, o1) as *const u8, w.act(1, o2) as *const u8);
    let (q1, q2) = (w.mdl(0, o1) as *const u8, w.mdl(1, o2) as *const u8);
    let want = unsafe { ref_memcmp(q1, q2, n) };
    let got_m = unsafe { memsyms::ts_memcmp(p1, p2, n) };
    let got_b = unsafe { memsyms::ts_bcmp(p1, p2, n) };
    let high = pos.is_some() && (c.a >= 0x80 || c.b >= 0x80);
    let descr = || format!("(s1&15={:x}, s2&15={:x}, n={n}, first difference {:?}: s1[i]={:#04x} s2[i]={:#04x}) {c:?}", p1 as usize & 15, p2 as usize & 15, pos, c.a, c.b);
    ensure!(got_m.signum() == want, format!("memcmp|wrong-sign|{}", if want == 0 { "equal operands" } else if high { "pair with a byte >= 0x80" } else { "pair below 0x80" }), "memcmp{} = {got_m}, expected sign {want}", descr());
    ensure!((got_b == 0) == (want == 0), format!("bcmp|wrong-zeroness|{}", if want == 0 { "equal operands reported different" } else { "different operands reported equal" }), "bcmp{} = {got_b}, expected {}", descr(), if want == 0 { "0" } else { "non-zero" });
    w.verify("memcmp/bcmp", None, "", &descr)?;

    rep.nontrivial_if(pos.is_some());
    rep.class_if(n == 0, "n=0");
    rep.class_if(pos.is_none() && n > 0, "equal");
    rep.class_if(pos == Some(0), "diff-first-byte");
    rep.class_if(n > 0 && pos == Some(n - 1), "diff-last-byte");
    rep.class_if(high, "pair-with-high-bit");
    rep.class_if(want < 0, "less");
    rep.class_if(want > 0, "greater");
    rep.class_if(n >= 65536, "large");
    rep.class_if(c.at1 == At::End && c.at2 == At::End, "both-end-at-guard-page");
    rep.class_if(c.at1 == At::Start && c.at2 == At::Start, "both-start-at-guard-page");
    rep.class_if((c.at1 == At::End) != (c.at2 == At::End), "one-ends-at-guard-page");
    Ok(rep)
}

// ------------------------------------------------------------------------------------ generators

fn any_at() -> impl Strategy<Value = At> {
    prop_oneof![3 => Just(At::Mid), 2 => Just(At::End), 1 => Just(At::Start)]
}

fn any_n() -> impl Strategy<Value = usize> {
    prop_oneof![
        3 => 0usize..=96,
        3 => 0usize..=4096,
        2 => 0usize..=65536,
        2 => 0usize..=MAX_N,
        1 => prop::sample::select(vec![MAX_N, MAX_N - 1, MAX_N - 7, 65536, 65535, 4097, 4096, 4095, 4088, 257, 256, 255]),
    ]
}

fn copy_rand() -> impl Strategy<Value = CopyCase> {
    (any::<bool>(), any_n(), 0u8..64, 0u8..64, any_at(), any_at(), any::<bool>(), any::<u8>()).prop_map(|(mv, n, dmis, smis, dst_at, src_at, swap, salt)| CopyCase {
        op: if mv { CopyOp::Memmove } else { CopyOp::Memcpy },
        n,
        dmis: if dst_at == At::Mid { dmis } else { 0 },
        smis: if src_at == At::Mid { smis } else { 0 },
        dst_at,
        src_at,
        swap,
        salt,
    })
}

fn move_rand() -> impl Strategy<Value = MoveCase> {
    (any_n(), 0u8..4, -64i64..=64, any::<u16>(), any::<bool>(), 0u8..64, any_at(), any::<u8>()).prop_map(|(n, kind, r, frac, neg, mis, at, salt)| {
        let lim = n as i64 + 64;
        let d = match kind {
            0 => r,                                                      // very close
            1 => n as i64 + r,                                           // around +n
            2 => -(n as i64) + r,                                        // around -n
            _ => {
                let m = ((frac as u64 * (n as u64 + 1)) >> 16) as i64; // anywhere inside
                if neg {
                    -m
                } else {
                    m
                }
            }
        };
        MoveCase { n, delta: d.clamp(-lim, lim), mis: if at == At::Mid { mis } else { 0 }, at, salt }
    })
}

fn set_rand() -> impl Strategy<Value = SetCase> {
    (any_n(), any::<u8>(), prop_oneof![3 => Just(0i32), 1 => any::<i32>()], 0u8..64, any_at(), any::<u8>()).prop_map(|(n, fill, upper, mis, at, salt)| SetCase {
        n,
        c: (upper & !0xff) | fill as i32,
        mis: if at == At::Mid { mis } else { 0 },
        at,
        salt,
    })
}

fn cmp_rand() -> impl Strategy<Value = CmpCase> {
    (any_n(), prop_oneof![1 => Just(None), 4 => any::<u16>().prop_map(Some)], any::<u8>(), 1u8..=255, 0u8..64, 0u8..64, any_at(), any_at(), any::<u8>()).prop_map(
        |(n, posf, a, x, m1, m2, at1, at2, salt)| {
            let pos = match posf {
                Some(f) if n > 0 => Some(((f as u64 * n as u64) >> 16) as usize),
                _ => None,
            };
            CmpCase { n, pos, a, b: a ^ x, m1: if at1 == At::Mid { m1 } else { 0 }, m2: if at2 == At::Mid { m2 } else { 0 }, at1, at2, salt }
        },
    )
}

// ------------------------------------------------------------------------------------ enumeration

struct Part {
    idx: u64,
    w: u64,
    nw: u64,
}

impl Part {
    fn new(ctx: &Ctx) -> Part {
        Part { idx: 0, w: ctx.worker as u64, nw: (ctx.nworkers as u64).max(1) }
    }
    fn mine(&mut self) -> bool {
        let m = self.idx % self.nw == self.w;
        self.idx += 1;
        m
    }
}

/// (dst_at, src_at, dest misalignments, src misalignments)
fn placements() -> Vec<(At, At, std::ops::Range<u8>, std::ops::Range<u8>)> {
    vec![
        (At::Mid, At::Mid, 0..16, 0..16),
        (At::End, At::Mid, 0..1, 0..16),
        (At::Mid, At::End, 0..16, 0..1),
        (At::Start, At::Mid, 0..1, 0..16),
        (At::Mid, At::Start, 0..16, 0..1),
        (At::End, At::End, 0..1, 0..1),
        (At::Start, At::Start, 0..1, 0..1),
        (At::End, At::Start, 0..1, 0..1),
        (At::Start, At::End, 0..1, 0..1),
    ]
}

/// differing pairs, both orders are enumerated
const PAIRS_QUICK: [(u8, u8); 4] = [(0x01, 0x02), (0x7f, 0x80), (0x00, 0xff), (0x80, 0x81)];
const PAIR_BYTES_THOROUGH: [u8; 6] = [0x00, 0x01, 0x7f, 0x80, 0x81, 0xff];

fn exh_copy(ctx: &Ctx, w: &std::cell::RefCell<World>, nmax: usize) {
    let mut part = Part::new(ctx);
    let mut total = 0u64;
    for op in [CopyOp::Memcpy, CopyOp::Memmove] {
        for n in 0..=nmax {
            for (dst_at, src_at, dr, sr) in placements() {
                for dmis in dr.clone() {
                    for smis in sr.clone() {
                        for swap in [false, true] {
                            total += 1;
                            if !part.mine() {
                                continue;
                            }
                            let case = CopyCase { op, n, dmis, smis, dst_at, src_at, swap, salt: (n as u8).wrapping_mul(7) };
                            if !ctx.run_one("copy-exh", &case, || check_copy(&mut w.borrow_mut(), &case)) {
                                return;
                            }
                        }
                    }
                }
            }
        }
    }
    ctx.note_exhaustive(format!(
        "copy-exh: memcpy and memmove on disjoint operands, every n in 0..={nmax} x dest misalignment 0..=15 x src misalignment 0..=15 x both address orders, plus every n with dest/src ending at or starting after a PROT_NONE page x the other operand's 16 misalignments ({total} cases per profile)"
    ));
}

fn exh_move(ctx: &Ctx, w: &std::cell::RefCell<World>, nmax: usize) {
    let mut part = Part::new(ctx);
    let mut total = 0u64;
    for n in 0..=nmax {
        let lim = n as i64 + 8;
        for delta in -lim..=lim {
            for (at, mr) in [(At::Mid, 0u8..16), (At::End, 0..1), (At::Start, 0..1)] {
                for mis in mr {
                    total += 1;
                    if !part.mine() {
                        continue;
                    }
                    let case = MoveCase { n, delta, mis, at, salt: (n as u8).wrapping_mul(7).wrapping_add(delta as u8) };
                    if !ctx.run_one("move-exh", &case, || check_move(&mut w.borrow_mut(), &case)) {
                        return;
                    }
                }
            }
        }
    }
    ctx.note_exhaustive(format!(
        "move-exh: memmove inside one buffer, every n in 0..={nmax} x every distance dest-src in -(n+8)..=(n+8) x misalignment 0..=15 of the lower operand, plus the buffer ending at / starting after a PROT_NONE page ({total} cases per profile)"
    ));
}

fn exh_set(ctx: &Ctx, w: &std::cell::RefCell<World>, nmax: usize) {
    let mut part = Part::new(ctx);
    let mut total = 0u64;
    for n in 0..=nmax {
        for fill in 0..=255u8 {
            for (at, mr) in [(At::Mid, 0u8..16), (At::End, 0..1), (At::Start, 0..1)] {
                for mis in mr {
                    // the int argument: plain byte value for every case; for three misalignments
                    // also forms whose upper bits are set (negative, > 255)
                    let forms: &[i32] = if mis % 5 == 0 { &[0, -256, 0x100, 0x7fff_ff00] } else { &[0] };
                    for &upper in forms {
                        total += 1;
                        if !part.mine() {
                            continue;
                        }
                        let case = SetCase { n, c: upper | fill as i32, mis, at, salt: (n as u8).wrapping_mul(7) };
                        if !ctx.run_one("set-exh", &case, || check_set(&mut w.borrow_mut(), &case)) {
                            return;
                        }
                    }
                }
            }
        }
    }
    ctx.note_exhaustive(format!(
        "set-exh: memset, every n in 0..={nmax} x every fill byte 0..=255 x misalignment 0..=15, plus the buffer ending at / starting after a PROT_NONE page; int arguments with upper bits set for misalignments 0,5,10,15 ({total} cases per profile)"
    ));
}

fn exh_cmp(ctx: &Ctx, w: &std::cell::RefCell<World>, nmax: usize) {
    let mut part = Part::new(ctx);
    let mut total = 0u64;
    let mut pairs: Vec<(u8, u8)> = Vec::new();
    if ctx.thorough() {
        for &a in &PAIR_BYTES_THOROUGH {
            for &b in &PAIR_BYTES_THOROUGH {
                if a != b {
                    pairs.push((a, b));
                }
            }
        }
    } else {
        for &(a, b) in &PAIRS_QUICK {
            pairs.push((a, b));
            pairs.push((b, a));
        }
    }
    let equal = [(0u8, 0u8)];
    for n in 0..=nmax {
        for posi in 0..=n {
            // posi == n encodes "equal"
            let pos = if posi == n { None } else { Some(posi) };
            let prs: &[(u8, u8)] = if pos.is_some() { &pairs } else { &equal };
            for &(a, b) in prs {
                for (at1, at2, r1, r2) in placements() {
                    for m1 in r1.clone() {
                        for m2 in r2.clone() {
                            total += 1;
                            if !part.mine() {
                                continue;
                            }
                            let case = CmpCase { n, pos, a, b, m1, m2, at1, at2, salt: (n as u8).wrapping_mul(7) };
                            if !ctx.run_one("cmp-exh", &case, || check_cmp(&mut w.borrow_mut(), &case)) {
                                return;
                            }
                        }
                    }
                }
            }
        }
    }
    ctx.note_exhaustive(format!(
        "cmp-exh: memcmp and bcmp, every n in 0..={nmax} x every position of the first differing byte (and equal operands) x {} ordered differing pairs incl. bytes >= 0x80 x misalignments 0..=15 x 0..=15, plus operands ending at / starting after PROT_NONE pages ({total} cases per profile)",
        pairs.len()
    ));
}

// ------------------------------------------------------------------------------------ neighbours

/// "Never writes a byte outside the destination" against a write that puts back what it has just read there (a
/// read-modify-write of a whole word at the edge of the destination): comparing memory before and after cannot see
/// it. While this thread calls the function over and over, a second thread is the ONLY writer of the byte right in
/// front of and the byte right behind the destination: it stores a counter there and, before each new store, reads
/// back what it stored last. A read that differs from its own last store proves a foreign write to that byte
/// (nothing else in the process has its address). Finding none proves nothing - the window is narrow -, so this
/// complements the exact checks above; a finding is definitive.
#[derive(Serialize, Deserialize, Clone, Debug)]
pub struct NeighbourCase {
    /// 0 memset, 1 memcpy, 2 memmove (source elsewhere)
    pub op: u8,
    pub n: usize,
    /// misalignment of the destination relative to 16
    pub mis: u8,
}

pub fn check_neighbours(c: &NeighbourCase) -> CaseResult {
    use std::sync::atomic::{AtomicBool, AtomicU8, Ordering::*};
    let mut rep = CaseReport::new();
    let n = c.n.min(4096);
    let mis = (c.mis & 15) as usize;
    // 64-byte aligned backing store; the destination starts 64 + mis bytes in
    let mut store = vec![0u64; (n + 256) / 8 + 2];
    let base = (store.as_mut_ptr() as usize + 63) & !63;
    let dest = (base + 64 + mis) as *mut u8;
    let src: Vec<u8> = (0..n).map(|i| (i * 7 + 3) as u8).collect();
    let before = unsafe { &*((dest as usize - 1) as *const AtomicU8) };
    let behind = unsafe { &*((dest as usize + n) as *const AtomicU8) };
    let (started, stop) = (AtomicBool::new(false), AtomicBool::new(false));
    let dest_addr = dest as usize;
    let foreign: Option<(&'static str, u8, u8)> = std::thread::scope(|sc| {
        let h = sc.spawn(|| {
            let (mut a, mut b) = (1u8, 0x81u8);
            before.store(a, Relaxed);
            behind.store(b, Relaxed);
            started.store(true, Release);
            let mut found = None;
            while !stop.load(Acquire) {
                let (ra, rb) = (before.load(Relaxed), behind.load(Relaxed));
                if ra != a {
                    found = Some(("in front of", a, ra));
                    break;
                }
                if rb != b {
                    found = Some(("behind", b, rb));
                    break;
                }
                a = a.wrapping_add(1);
                b = b.wrapping_add(1);
                before.store(a, Relaxed);
                behind.store(b, Relaxed);
            }
            found
        });
        while !started.load(Acquire) {
            std::hint::spin_loop();
        }
        let d = dest_addr as *mut u8;
        for k in 0..6000u32 {
            unsafe {
                match c.op {
                    0 => memsyms::ts_memset(d, k as i32 & 0xff, n),
                    1 => memsyms::ts_memcpy(d, src.as_ptr(), n),
                    _ => memsyms::ts_memmove(d, src.as_ptr(), n),
                };
            }
        }
        stop.store(true, Release);
        h.join().expect("neighbour thread")
    });
    let name = ["memset", "memcpy", "memmove"][c.op.min(2) as usize];
    if let Some((side, stored, read)) = foreign {
        fail!(format!("{name}|writes-outside-destination|byte {side} the destination rewritten"), "{name}(dest&15={mis:x}, n={n}) called in a loop: the byte right {side} the destination, which only the observing thread writes, read {read:#x} after that thread had stored {stored:#x} there - the function stores to a byte outside [dest, dest+n) (putting back what it read there earlier)");
    }
    rep.nontrivial = n > 0;
    rep.class(name);
    rep.class_if(n >= 16, "word-path");
    rep.class_if((dest_addr + n) % WORD != 0, "destination-ends-inside-a-word");
    rep.class_if(dest_addr % WORD != 0, "destination-starts-inside-a-word");
    drop(store);
    Ok(rep)
}

// ------------------------------------------------------------------------------------ huge

/// Lengths of several MiB (where an implementation may switch to another strategy: non-temporal stores, page-wise
/// copies) at destinations of every alignment class modulo 16 - the exact checks above stop at 1 MiB.
#[derive(Serialize, Deserialize, Clone, Debug)]
pub struct HugeCase {
    /// 0 memset, 1 memcpy, 2 memmove forward overlap (dest below src by `gap`), 3 memmove backward overlap
    pub op: u8,
    pub n: usize,
    pub dmis: u8,
    pub smis: u8,
    pub gap: u16,
}

pub fn check_huge(c: &HugeCase) -> CaseResult {
    let mut rep = CaseReport::new();
    let n = c.n.min(9 << 20);
    let (dm, sm) = ((c.dmis & 63) as usize, (c.smis & 63) as usize);
    let name = ["memset", "memcpy", "memmove", "memmove"][c.op.min(3) as usize];
    // one arena for both operands: [64 red][dest .. n][64 red] ... ; contents a function of the index
    let total = 2 * n + 4096 + 2 * (c.gap as usize);
    let mut arena: Vec<u8> = (0..total).map(|i| (i as u32).wrapping_mul(2654435761) as u8).collect();
    let base = arena.as_mut_ptr() as usize;
    let a0 = (64 - base % 64) % 64;
    let (doff, soff) = match c.op {
        0 => (a0 + 64 + dm, 0),
        1 => (a0 + 64 + dm, a0 + 64 + n + 1024 + sm),
        2 => (a0 + 64 + dm, a0 + 64 + dm + 1 + c.gap as usize),
        _ => (a0 + 64 + dm + 1 + c.gap as usize, a0 + 64 + dm),
    };
    let mut model = arena.clone();
    // reference on the model
    match c.op {
        0 => model[doff..doff + n].fill(0x5a),
        _ => model.copy_within(soff..soff + n, doff),
    }
    let ret = unsafe {
        let d = arena.as_mut_ptr().add(doff);
        match c.op {
            0 => memsyms::ts_memset(d, 0x5a, n),
            1 => memsyms::ts_memcpy(d, arena.as_ptr().add(soff), n),
            _ => memsyms::ts_memmove(d, arena.as_ptr().add(soff), n),
        }
    };
    ensure!(ret as usize == arena.as_ptr() as usize + doff, format!("{name}|wrong-return|huge"), "{name}(n={n}) returned {:p}", ret);
    if arena != model {
        let at = arena.iter().zip(model.iter()).position(|(a, b)| a != b).unwrap();
        let rel = at as i64 - doff as i64;
        let shape = if rel < 0 { "before the destination" } else if rel as usize >= n { "behind the destination" } else { "inside the destination" };
        fail!(format!("{name}|wrong-bytes|huge, {shape}"), "{name}(dest&15={:x}, n={n}{}): first difference from the byte-wise reference at destination offset {rel} (got {:#x}, expected {:#x})", (base + doff) & 15, if c.op >= 2 { format!(", overlap distance {}", c.gap as usize + 1) } else { String::new() }, arena[at], model[at]);
    }
    rep.nontrivial = true;
    rep.class(name);
    rep.class_if(n >= 4 << 20, "four-MiB-or-more");
    rep.class_if((base + doff) % 16 != 0, "destination-not-16-byte-aligned");
    Ok(rep)
}

fn huge(ctx: &Ctx) {
    if let Some(c) = ctx.replay_case::<HugeCase>("huge") {
        ctx.run_one("huge", &c, || check_huge(&c));
        return;
    }
    if ctx.is_replay() {
        return;
    }
    let mut k = 0u32;
    for op in 0u8..4 {
        for n in [(2usize << 20) + 3, (4 << 20) - 1, 4 << 20, (4 << 20) + 17, (8 << 20) + 1] {
            for dmis in [0u8, 1, 7, 8, 9, 15] {
                k += 1;
                if k % ctx.nworkers != ctx.worker {
                    continue;
                }
                let c = HugeCase { op, n, dmis, smis: dmis.wrapping_mul(5) & 15, gap: 4096 + dmis as u16 };
                if !ctx.run_one("huge", &c, || check_huge(&c)) {
                    return;
                }
            }
        }
    }
}

fn neighbours(ctx: &Ctx) {
    if let Some(c) = ctx.replay_case::<NeighbourCase>("neighbours") {
        ctx.run_one("neighbours", &c, || check_neighbours(&c));
        return;
    }
    if ctx.is_replay() {
        return;
    }
    let mut k = 0u32;
    for op in 0u8..3 {
        for n in (0usize..=48).chain([63, 64, 65, 127, 128, 129, 255, 1000]) {
            for mis in [0u8, 1, 3, 4, 7, 8, 9, 13, 15] {
                k += 1;
                if k % ctx.nworkers != ctx.worker {
                    continue;
                }
                let c = NeighbourCase { op, n, mis };
                if !ctx.run_one("neighbours", &c, || check_neighbours(&c)) {
                    return;
                }
            }
        }
    }
}

pub fn run(ctx: &Ctx) {
    let w = std::cell::RefCell::new(World::new());
    ctx.extra("carrier", serde_json::json!(format!("(i) memsyms: {} with {} #[no_mangle] stripped, #![no_builtins]", memsyms::ORIGIN, memsyms::NO_MANGLE_STRIPPED)));

    if ctx.is_replay() {
        if let Some(c) = ctx.replay_case::<CopyCase>("copy-exh") {
            ctx.run_one("copy-exh", &c, || check_copy(&mut w.borrow_mut(), &c));
        }
        if let Some(c) = ctx.replay_case::<MoveCase>("move-exh") {
            ctx.run_one("move-exh", &c, || check_move(&mut w.borrow_mut(), &c));
        }
        if let Some(c) = ctx.replay_case::<SetCase>("set-exh") {
            ctx.run_one("set-exh", &c, || check_set(&mut w.borrow_mut(), &c));
        }
        if let Some(c) = ctx.replay_case::<CmpCase>("cmp-exh") {
            ctx.run_one("cmp-exh", &c, || check_cmp(&mut w.borrow_mut(), &c));
        }
    } else {
        // 2*threshold+word = 40 is the stated exhaustive bound; the thorough tier goes further
        let nmax = if ctx.thorough() { 72 } else { 40 };
        exh_copy(ctx, &w, nmax);
        exh_move(ctx, &w, nmax);
        exh_set(ctx, &w, nmax);
        exh_cmp(ctx, &w, 40);
    }

    ctx.run_prop("copy-rand", ctx.cases(600, 30_000), copy_rand(), |c: &CopyCase| check_copy(&mut w.borrow_mut(), c));
    ctx.run_prop("move-rand", ctx.cases(600, 30_000), move_rand(), |c: &MoveCase| check_move(&mut w.borrow_mut(), c));
    ctx.run_prop("set-rand", ctx.cases(400, 20_000), set_rand(), |c: &SetCase| check_set(&mut w.borrow_mut(), c));
    ctx.run_prop("cmp-rand", ctx.cases(400, 20_000), cmp_rand(), |c: &CmpCase| check_cmp(&mut w.borrow_mut(), c));
    neighbours(ctx);
    huge(ctx);
    probe::run(ctx);
}
