//! C08 carrier (ii): the no-libc executable `probe-mem` (/verif/probes/mem), which links the REAL
//! tiny-start mem symbols under their real names (what ships), driven over pipes.
//!
//! The probe performs each case on static arenas with 64-byte red zones (initial contents a pattern
//! both sides compute) and echoes the resulting bytes and the return value; this driver applies a
//! plain byte-loop reference to a model of the same arenas and compares everything echoed: the
//! destination, both red zones, the source. Ops 0..=4 go through the exported C symbols, ops 5..=10
//! are Rust constructs (struct assignment, array moves, copy_from_slice, fill, copy_within, slice ==)
//! for which the compiler inserts the calls. A probe that dies (e.g. unbounded recursion when
//! tiny-start loses `#![no_builtins]`) is a violation with signature `mem-symbols|probe crashed|<mode>`.
//!
//! Sub-checks: `probe-exh` (one batch of tens of thousands of enumerated cases per build and worker,
//! each recorded as its own case) and `probe-rand` (proptest lists of larger cases).
use std::ffi::CString;
use std::time::{Duration, Instant};

use proptest::prelude::*;
use serde::{Deserialize, Serialize};

use vh::runner::{CaseReport, CaseResult, Ctx, Failure};

const RZ: usize = 64;
const MAXN: usize = 256 * 1024;
/// builds of the probe that are exercised (debug calls everything out of line; release has the idiom
/// recognition that `#![no_builtins]` must keep away from the symbols; pie-release adds self-relocated GOT calls)
pub const MODES: [&str; 3] = ["dyn-debug", "dyn-release", "pie-release"];
const BUILD_CLASS: [&str; 3] = ["build-dyn-debug", "build-dyn-release", "build-pie-release"];

#[derive(Serialize, Deserialize, Clone, Copy, Debug, PartialEq, Eq)]
pub enum Op {
    Memcpy,
    Memmove,
    Memset,
    Memcmp,
    Bcmp,
    StructCopy,
    ArrayMove,
    CopyFromSlice,
    Fill,
    CopyWithin,
    SliceEq,
}

impl Op {
    fn code(self) -> u8 {
        self as u8
    }
    fn name(self) -> &'static str {
        match self {
            Op::Memcpy => "memcpy",
            Op::Memmove => "memmove",
            Op::Memset => "memset",
            Op::Memcmp => "memcmp",
            Op::Bcmp => "bcmp",
            Op::StructCopy => "struct assignment",
            Op::ArrayMove => "array move",
            Op::CopyFromSlice => "copy_from_slice",
            Op::Fill => "slice fill",
            Op::CopyWithin => "copy_within",
            Op::SliceEq => "slice ==",
        }
    }
    fn one_arena(self) -> bool {
        matches!(self, Op::Memmove | Op::Memset | Op::Fill | Op::CopyWithin)
    }
    fn moves(self) -> bool {
        matches!(self, Op::Memmove | Op::CopyWithin)
    }
    fn compares(self) -> bool {
        matches!(self, Op::Memcmp | Op::Bcmp | Op::SliceEq)
    }
}

#[derive(Serialize, Deserialize, Clone, Debug)]
pub struct MemCase {
    pub op: Op,
    pub n: u32,
    /// misalignment of the destination / first operand (arena is 64-byte aligned; operand at 64 + dmis)
    pub dmis: u8,
    pub smis: u8,
    /// memmove / copy_within: dest - src
    pub delta: i32,
    /// memset / fill: the int argument
    pub c: i32,
    /// compares: index of the differing pair, -1 = equal operands
    pub pos: i32,
    pub a: u8,
    pub b: u8,
    pub salt: u8,
}

impl MemCase {
    fn new(op: Op, n: u32) -> MemCase {
        MemCase { op, n, dmis: 0, smis: 0, delta: 0, c: 0, pos: -1, a: 0, b: 0, salt: (n as u8).wrapping_mul(37).wrapping_add(op.code()) }
    }
    fn record(&self) -> [u8; 32] {
        let mut r = [0u8; 32];
        r[0] = self.op.code();
        r[1] = self.salt;
        r[2] = self.dmis;
        r[3] = self.smis;
        r[4..8].copy_from_slice(&self.n.to_le_bytes());
        r[8..12].copy_from_slice(&self.delta.to_le_bytes());
        r[12..16].copy_from_slice(&self.c.to_le_bytes());
        r[16..20].copy_from_slice(&self.pos.to_le_bytes());
        r[20] = self.a;
        r[21] = self.b;
        r
    }
    fn span(&self) -> usize {
        if self.op.moves() {
            self.delta.unsigned_abs() as usize + self.n as usize
        } else {
            self.n as usize
        }
    }
    /// What the probe accepts (mirrors its own validation).
    fn valid(&self) -> bool {
        self.dmis < 64
            && self.smis < 64
            && self.span() <= MAXN
            && match self.op {
                Op::StructCopy => matches!(self.n, 1024 | 2048 | 4096) && self.dmis == 0 && self.smis == 0,
                Op::ArrayMove => matches!(self.n, 1024 | 1500 | 4096),
                Op::Memcmp | Op::Bcmp | Op::SliceEq => self.pos < self.n as i32,
                _ => true,
            }
    }
    fn dlen(&self) -> usize {
        RZ + self.dmis as usize + self.span() + RZ
    }
    fn slen(&self) -> usize {
        RZ + self.smis as usize + self.n as usize + RZ
    }
}

/// A case as recorded / replayed: one probe process per `ProbeCase` in replay mode.
#[derive(Serialize, Deserialize, Clone, Debug)]
pub struct ProbeCase {
    /// index into MODES
    pub build: u8,
    pub case: MemCase,
}

#[derive(Serialize, Deserialize, Clone, Debug)]
pub struct ProbeList {
    pub build: u8,
    pub cases: Vec<MemCase>,
}

fn pat(salt: u8, i: usize) -> u8 {
    ((i.wrapping_mul(131).wrapping_add((i >> 7).wrapping_mul(17))) as u8) ^ salt
}

/// Expected echo of a case: (ret, D region, S region).
fn reference(c: &MemCase) -> (Expect, Vec<u8>, Vec<u8>) {
    let n = c.n as usize;
    let mut d: Vec<u8> = (0..c.dlen()).map(|i| pat(c.salt, i)).collect();
    let mut s: Vec<u8> = if c.op.one_arena() { Vec::new() } else { (0..c.slen()).map(|i| pat(!c.salt, i)).collect() };
    let dp = RZ + c.dmis as usize;
    let sp = RZ + c.smis as usize;
    let mut ret = Expect::Exactly(0);
    match c.op {
        Op::Memcpy | Op::StructCopy | Op::ArrayMove | Op::CopyFromSlice => {
            for i in 0..n {
                d[dp + i] = s[sp + i];
            }
        }
        Op::Memmove | Op::CopyWithin => {
            let ad = c.delta.unsigned_abs() as usize;
            let (dest, src) = if c.delta >= 0 { (dp + ad, dp) } else { (dp, dp + ad) };
            let tmp: Vec<u8> = d[src..src + n].to_vec();
            for i in 0..n {
                d[dest + i] = tmp[i];
            }
        }
        Op::Memset | Op::Fill => {
            // C11 7.24.6.1: the value of c converted to unsigned char
            for i in 0..n {
                d[dp + i] = c.c as u8;
            }
        }
        Op::Memcmp | Op::Bcmp | Op::SliceEq => {
            for i in 0..n {
                d[dp + i] = pat(c.salt ^ 0x3c, i);
                s[sp + i] = pat(c.salt ^ 0x3c, i);
            }
            let mut sign = 0i32;
            if c.pos >= 0 {
                d[dp + c.pos as usize] = c.a;
                s[sp + c.pos as usize] = c.b;
                // C11 7.24.4: both interpreted as unsigned char
                sign = (c.a as i32 - c.b as i32).signum();
            }
            ret = match c.op {
                Op::Memcmp => Expect::Sign(sign),
                Op::Bcmp => Expect::ZeroIff(sign == 0),
                _ => Expect::Exactly((sign == 0) as i64),
            };
        }
    }
    (ret, d, s)
}

#[derive(Debug, Clone, Copy)]
enum Expect {
    Exactly(i64),
    Sign(i32),
    ZeroIff(bool),
}

fn shape(c: &MemCase) -> &'static str {
    if c.op.moves() {
        let ad = c.delta.unsigned_abs();
        return if ad >= c.n || c.delta == 0 {
            if c.delta == 0 {
                "dest == src"
            } else {
                "disjoint operands"
            }
        } else if c.delta > 0 {
            "overlap, dest above src (backward copy)"
        } else {
            "overlap, dest below src (forward copy)"
        };
    }
    if c.op.compares() {
        return if c.pos < 0 { "equal operands" } else { "differing pair" };
    }
    if c.n < 16 {
        "n < 16 (byte path)"
    } else if c.op.one_arena() || c.dmis % 8 == c.smis % 8 {
        "n >= 16 (word path)"
    } else {
        "n >= 16, src misaligned relative to dest"
    }
}

/// Compare one echoed record with the reference.
fn judge(c: &MemCase, mode: &str, rec: &[u8]) -> CaseResult {
    let (want_ret, d, s) = reference(c);
    let name = c.op.name();
    let sh = shape(c);
    if rec.len() != 8 + d.len() + s.len() {
        return Err(Failure::new(format!("probe-mem|malformed output|{mode}"), format!("[{mode}] {c:?}: record of {} bytes, expected {}", rec.len(), 8 + d.len() + s.len())));
    }
    let ret = i64::from_le_bytes(rec[..8].try_into().unwrap());
    let got_d = &rec[8..8 + d.len()];
    let got_s = &rec[8 + d.len()..];
    let dp = RZ + c.dmis as usize;
    if let Some(i) = (0..d.len()).find(|&i| got_d[i] != d[i]) {
        let class = if i < dp { "wrote below the destination (red zone)" } else if i >= dp + c.span() { "wrote past the destination (red zone)" } else { "destination bytes differ" };
        return Err(Failure::new(
            format!("mem-symbols|{name}: {class}|{sh}"),
            format!("[{mode}] {c:?}: byte {} of the destination arena (operand starts at {dp}, spans {}) is {:#04x}, reference {:#04x}", i, c.span(), got_d[i], d[i]),
        ));
    }
    if let Some(i) = (0..s.len()).find(|&i| got_s[i] != s[i]) {
        return Err(Failure::new(format!("mem-symbols|{name}: source arena modified|{sh}"), format!("[{mode}] {c:?}: byte {i} of the source arena is {:#04x}, was {:#04x}", got_s[i], s[i])));
    }
    let ok = match want_ret {
        Expect::Exactly(v) => ret == v,
        Expect::Sign(sg) => (ret as i32).signum() == sg && ret == (ret as i32) as i64,
        Expect::ZeroIff(z) => (ret == 0) == z,
    };
    if !ok {
        let class = match want_ret {
            Expect::Exactly(_) if c.op.compares() => "wrong answer",
            Expect::Exactly(_) => "return value is not the destination",
            Expect::Sign(_) => "sign differs from the unsigned-char difference",
            Expect::ZeroIff(_) => "zero-ness differs",
        };
        return Err(Failure::new(format!("mem-symbols|{name}: {class}|{sh}"), format!("[{mode}] {c:?}: returned {ret} (for copies: relative to dest), expected {want_ret:?}")));
    }
    let mut r = CaseReport::new();
    let n = c.n;
    let overlap = c.op.moves() && c.delta != 0 && (c.delta.unsigned_abs()) < n;
    r.nontrivial_if((n >= 16 && (c.dmis % 8 != 0 || c.smis % 8 != 0)) || overlap || (c.op.compares() && c.pos >= 0));
    r.class(match c.op {
        Op::Memcpy => "memcpy",
        Op::Memmove => "memmove",
        Op::Memset => "memset",
        Op::Memcmp => "memcmp",
        Op::Bcmp => "bcmp",
        Op::StructCopy => "compiler-inserted:struct-assignment",
        Op::ArrayMove => "compiler-inserted:array-move",
        Op::CopyFromSlice => "compiler-inserted:copy_from_slice",
        Op::Fill => "compiler-inserted:fill",
        Op::CopyWithin => "compiler-inserted:copy_within",
        Op::SliceEq => "compiler-inserted:slice-eq",
    });
    r.class_if(n >= 16 && !c.op.compares() && c.dmis % 8 != c.smis % 8 && !c.op.one_arena(), "word-path-src-misaligned");
    r.class_if(overlap && c.delta > 0 && n >= 16, "overlap-backward-word-path");
    r.class_if(overlap && c.delta < 0 && n >= 16, "overlap-forward-word-path");
    r.class_if(c.op.compares() && c.pos >= 0 && (c.a >= 0x80 || c.b >= 0x80), "pair-with-high-bit");
    r.class_if(matches!(c.op, Op::Memset | Op::Fill) && !(0..=255).contains(&c.c), "c-wider-than-a-byte");
    r.class_if(n as usize >= 4096, "large");
    Ok(r)
}

// ------------------------------------------------------------------------------------ launching

struct Outcome {
    stdout: Vec<u8>,
    exit: Option<i32>,
    signal: Option<i32>,
    timed_out: bool,
}

fn probe_path(mode: &str) -> String {
    let prof = if mode.ends_with("debug") { "debug" } else { "release" };
    format!("{}/probes/target-{mode}/x86_64-unknown-linux-gnu/{prof}/probe-mem", vh::runner::verif_root())
}

fn launch(path: &str, stdin: &[u8], limit: Duration) -> Result<Outcome, i32> {
    let cpath = CString::new(path).unwrap();
    let argv = [cpath.as_ptr() as *mut libc::c_char, core::ptr::null_mut()];
    let envp = [core::ptr::null_mut::<libc::c_char>()];
    let mut p_in = [0i32; 2];
    let mut p_out = [0i32; 2];
    unsafe {
        if libc::pipe2(p_in.as_mut_ptr(), libc::O_CLOEXEC) != 0 {
            return Err(*libc::__errno_location());
        }
        if libc::pipe2(p_out.as_mut_ptr(), libc::O_CLOEXEC) != 0 {
            let e = *libc::__errno_location();
            libc::close(p_in[0]);
            libc::close(p_in[1]);
            return Err(e);
        }
        let mut fa: libc::posix_spawn_file_actions_t = core::mem::zeroed();
        libc::posix_spawn_file_actions_init(&mut fa);
        libc::posix_spawn_file_actions_adddup2(&mut fa, p_in[0], 0);
        libc::posix_spawn_file_actions_adddup2(&mut fa, p_out[1], 1);
        let mut at: libc::posix_spawnattr_t = core::mem::zeroed();
        libc::posix_spawnattr_init(&mut at);
        let mut def: libc::sigset_t = core::mem::zeroed();
        libc::sigemptyset(&mut def);
        libc::sigaddset(&mut def, libc::SIGPIPE);
        libc::posix_spawnattr_setsigdefault(&mut at, &def);
        libc::posix_spawnattr_setflags(&mut at, libc::POSIX_SPAWN_SETSIGDEF as libc::c_short);
        let mut pid: libc::pid_t = 0;
        let rc = libc::posix_spawn(&mut pid, cpath.as_ptr(), &fa, &at, argv.as_ptr(), envp.as_ptr());
        libc::posix_spawn_file_actions_destroy(&mut fa);
        libc::posix_spawnattr_destroy(&mut at);
        libc::close(p_in[0]);
        libc::close(p_out[1]);
        if rc != 0 {
            libc::close(p_in[1]);
            libc::close(p_out[0]);
            return Err(rc);
        }
        let (w, r) = (p_in[1], p_out[0]);
        for fd in [w, r] {
            let fl = libc::fcntl(fd, libc::F_GETFL);
            libc::fcntl(fd, libc::F_SETFL, fl | libc::O_NONBLOCK);
        }
        let mut out = Vec::new();
        let mut sent = 0usize;
        let mut w_open = true;
        if stdin.is_empty() {
            libc::close(w);
            w_open = false;
        }
        let mut buf = vec![0u8; 1 << 18];
        let start = Instant::now();
        let mut timed_out = false;
        loop {
            let left = limit.saturating_sub(start.elapsed());
            if left.is_zero() {
                timed_out = true;
                libc::kill(pid, libc::SIGKILL);
                break;
            }
            let mut pf = [libc::pollfd { fd: r, events: libc::POLLIN, revents: 0 }, libc::pollfd { fd: if w_open { w } else { -1 }, events: libc::POLLOUT, revents: 0 }];
            if libc::poll(pf.as_mut_ptr(), 2, left.as_millis().min(1000) as i32) < 0 {
                continue;
            }
            if w_open && pf[1].revents != 0 {
                let k = libc::write(w, stdin[sent..].as_ptr() as *const libc::c_void, stdin.len() - sent);
                if k > 0 {
                    sent += k as usize;
                }
                let gone = k < 0 && *libc::__errno_location() != libc::EAGAIN;
                if sent == stdin.len() || gone {
                    libc::close(w);
                    w_open = false;
                }
            }
            if pf[0].revents != 0 {
                let k = libc::read(r, buf.as_mut_ptr() as *mut libc::c_void, buf.len());
                if k > 0 {
                    out.extend_from_slice(&buf[..k as usize]);
                } else if k == 0 || *libc::__errno_location() != libc::EAGAIN {
                    break;
                }
            }
        }
        if w_open {
            libc::close(w);
        }
        libc::close(r);
        let mut status = 0i32;
        while libc::waitpid(pid, &mut status, 0) < 0 && *libc::__errno_location() == libc::EINTR {}
        let (exit, signal) = if libc::WIFEXITED(status) { (Some(libc::WEXITSTATUS(status)), None) } else if libc::WIFSIGNALED(status) { (None, Some(libc::WTERMSIG(status))) } else { (None, None) };
        Ok(Outcome { stdout: out, exit, signal, timed_out })
    }
}

enum BatchEnd {
    /// every case answered, exit 0
    Clean,
    /// the process died; `answered` cases have results
    Died { answered: usize, how: String },
    /// driver-side problem or time limit: inconclusive
    Unknown(String),
}

/// Run `cases` in ONE probe process; per-case results for the answered prefix.
fn run_batch(build: usize, cases: &[MemCase]) -> (Vec<CaseResult>, BatchEnd) {
    let mode = MODES[build];
    let mut stdin = Vec::with_capacity(cases.len() * 32);
    for c in cases {
        assert!(c.valid(), "invalid probe case generated: {c:?}");
        stdin.extend_from_slice(&c.record());
    }
    let o = match launch(&probe_path(mode), &stdin, Duration::from_secs(120)) {
        Ok(o) => o,
        Err(errno) => return (Vec::new(), BatchEnd::Unknown(format!("could not start {}: errno {errno}", probe_path(mode)))),
    };
    let mut results = Vec::with_capacity(cases.len());
    let mut p = 0usize;
    let out = &o.stdout;
    for c in cases {
        if p + 4 > out.len() {
            break;
        }
        let len = u32::from_le_bytes(out[p..p + 4].try_into().unwrap()) as usize;
        if p + 4 + len > out.len() {
            break;
        }
        results.push(judge(c, mode, &out[p + 4..p + 4 + len]));
        p += 4 + len;
    }
    if o.timed_out {
        return (results, BatchEnd::Unknown(format!("probe {mode} exceeded the time limit")));
    }
    let end = if let Some(sig) = o.signal {
        BatchEnd::Died { answered: results.len(), how: format!("killed by signal {sig}") }
    } else if o.exit != Some(0) {
        match o.exit {
            // the probe's own pipe I/O failed: environment
            Some(code @ 90..=93) => BatchEnd::Unknown(format!("probe {mode} I/O failure (exit {code})")),
            other => BatchEnd::Died { answered: results.len(), how: format!("exit status {other:?}") },
        }
    } else if results.len() != cases.len() {
        BatchEnd::Died { answered: results.len(), how: "exit 0 with truncated output".to_string() }
    } else {
        BatchEnd::Clean
    };
    (results, end)
}

/// One case in its own process (replays, and confirmation of a failure seen inside a batch).
fn run_single(ctx: &Ctx, pc: &ProbeCase) -> CaseResult {
    let build = (pc.build as usize).min(MODES.len() - 1);
    if !pc.case.valid() {
        return Ok(CaseReport::new());
    }
    let (mut results, end) = run_batch(build, std::slice::from_ref(&pc.case));
    match end {
        BatchEnd::Clean => results.pop().unwrap().map(|mut r| {
            r.class(BUILD_CLASS[build]);
            r
        }),
        BatchEnd::Died { how, .. } => Err(Failure::new(format!("mem-symbols|probe crashed|{}", MODES[build]), format!("[{}] probe {how} while executing {:?}", MODES[build], pc.case))),
        BatchEnd::Unknown(why) => {
            eprintln!("[C08 probe] {why}: inconclusive");
            ctx.inconclusive();
            Ok(CaseReport::new())
        }
    }
}

// ------------------------------------------------------------------------------------ enumeration

fn enumerate(thorough: bool) -> Vec<MemCase> {
    let nmax: u32 = if thorough { 72 } else { 40 };
    let mut v = Vec::new();
    // memcpy, copy_from_slice: n x dest misalignment x src misalignment
    for n in 0..=nmax {
        for dmis in 0..16u8 {
            for smis in 0..16u8 {
                v.push(MemCase { dmis, smis, ..MemCase::new(Op::Memcpy, n) });
                if (dmis + smis) % 4 == 0 {
                    v.push(MemCase { dmis, smis, ..MemCase::new(Op::CopyFromSlice, n) });
                }
            }
        }
    }
    // memset, fill
    for n in 0..=nmax {
        for dmis in 0..16u8 {
            for c in [0i32, 0x5a, 0xff, 0x80, 0x1a5, -1] {
                v.push(MemCase { dmis, c, ..MemCase::new(Op::Memset, n) });
            }
            v.push(MemCase { dmis, c: 0xa7, ..MemCase::new(Op::Fill, n) });
        }
    }
    // memmove, copy_within: every distance, misalignment of the lower operand
    for n in 0..=nmax {
        for delta in -(n as i32 + 8)..=(n as i32 + 8) {
            for dmis in 0..16u8 {
                v.push(MemCase { dmis, delta, ..MemCase::new(Op::Memmove, n) });
                if dmis % 5 == 0 {
                    v.push(MemCase { dmis, delta, ..MemCase::new(Op::CopyWithin, n) });
                }
            }
        }
    }
    // memcmp / bcmp / slice ==: position of the differing pair, both orders, high bit
    for n in 0..=40u32 {
        let mut poss: Vec<i32> = vec![-1];
        if n > 0 {
            poss.extend([0, (n / 2) as i32, n as i32 - 1]);
            poss.sort();
            poss.dedup();
        }
        for m1 in 0..16u8 {
            for m2 in 0..16u8 {
                for &pos in &poss {
                    let pairs: &[(u8, u8)] = if pos < 0 { &[(0, 0)] } else { &[(1, 2), (2, 1), (0x80, 0x7f), (0x7f, 0x80), (0xff, 0x00), (0x00, 0xff)] };
                    for (k, &(a, b)) in pairs.iter().enumerate() {
                        v.push(MemCase { dmis: m1, smis: m2, pos, a, b, ..MemCase::new(Op::Memcmp, n) });
                        if k % 2 == 0 {
                            v.push(MemCase { dmis: m1, smis: m2, pos, a, b, ..MemCase::new(Op::Bcmp, n) });
                        }
                        if k == 2 && (m1 + m2) % 3 == 0 {
                            v.push(MemCase { dmis: m1, smis: m2, pos, a, b, ..MemCase::new(Op::SliceEq, n) });
                        }
                    }
                }
            }
        }
    }
    // compiler-inserted fixed-size copies
    for salt in 0..8u8 {
        for n in [1024u32, 2048, 4096] {
            v.push(MemCase { salt, ..MemCase::new(Op::StructCopy, n) });
        }
        for n in [1024u32, 1500, 4096] {
            for (dmis, smis) in [(0u8, 0u8), (1, 0), (0, 3), (5, 9)] {
                v.push(MemCase { salt, dmis, smis, ..MemCase::new(Op::ArrayMove, n) });
            }
        }
    }
    v
}

fn rand_case() -> impl Strategy<Value = MemCase> {
    let n = prop_oneof![3 => 0u32..=128, 4 => 129u32..=8192, 2 => 8193u32..=(MAXN as u32 / 2), 1 => Just(MAXN as u32 / 2)];
    (0usize..11, n, 0u8..64, 0u8..64, any::<i32>(), any::<i32>(), any::<u32>(), any::<u8>(), any::<u8>(), any::<u8>(), 0u8..4).prop_map(|(op, n, dmis, smis, delta, c, pos, a, b, salt, dk)| {
        let op = [Op::Memcpy, Op::Memmove, Op::Memset, Op::Memcmp, Op::Bcmp, Op::StructCopy, Op::ArrayMove, Op::CopyFromSlice, Op::Fill, Op::CopyWithin, Op::SliceEq][op];
        let mut m = MemCase { op, n, dmis, smis, delta: 0, c, pos: -1, a, b, salt };
        match op {
            Op::StructCopy => {
                m.n = [1024, 2048, 4096][(n % 3) as usize];
                m.dmis = 0;
                m.smis = 0;
            }
            Op::ArrayMove => m.n = [1024, 1500, 4096][(n % 3) as usize],
            Op::Memmove | Op::CopyWithin => {
                // near zero, near +-n, anywhere inside, far apart
                let nn = n as i64;
                let d = match dk {
                    0 => (delta % 17) as i64,
                    1 => nn * (if delta < 0 { -1 } else { 1 }) + (delta % 9) as i64,
                    2 => {
                        if nn > 0 {
                            (delta as i64) % nn
                        } else {
                            0
                        }
                    }
                    _ => (delta as i64) % (MAXN as i64 / 2),
                };
                m.delta = d.clamp(-(MAXN as i64 - nn), MAXN as i64 - nn) as i32;
            }
            Op::Memcmp | Op::Bcmp | Op::SliceEq => {
                if n > 0 && dk != 0 {
                    m.pos = (pos % n) as i32;
                    if a == b {
                        m.b = b.wrapping_add(1);
                    }
                }
            }
            _ => {}
        }
        m
    })
}

fn missing_probe(ctx: &Ctx) -> bool {
    for m in MODES {
        if !std::path::Path::new(&probe_path(m)).exists() {
            eprintln!("[C08 probe] {} is missing (lib/build_probes.py probe-mem {})", probe_path(m), MODES.join(" "));
            ctx.inconclusive();
            return true;
        }
    }
    false
}

pub fn run(ctx: &Ctx) {
    if ctx.is_replay() {
        if let Some(pc) = ctx.replay_case::<ProbeCase>("probe-exh") {
            ctx.run_one("probe-exh", &pc, || run_single(ctx, &pc));
        }
    }
    // The probe builds do not depend on the driver's profile: the release workers do this part.
    let mine = ctx.profile == "release";
    if !ctx.is_replay() && !mine {
        return;
    }
    if missing_probe(ctx) {
        std::process::exit(3);
    }
    ctx.extra("carrier_ii", serde_json::json!(format!("probe-mem ({}) links tiny-start's mem symbols under their real names; builds {}", probe_path("<mode>"), MODES.join(" "))));

    if !ctx.is_replay() {
        let all = enumerate(ctx.thorough());
        let share: Vec<MemCase> = all.into_iter().enumerate().filter(|(i, _)| (*i as u32) % ctx.nworkers == ctx.worker).map(|(_, c)| c).collect();
        ctx.note_exhaustive(format!(
            "probe-mem per build ({}): memcpy n<=40 x 16 x 16 misalignments; memset n<=40 x 16 x 6 fill ints; memmove n<=40 x every distance -(n+8)..=(n+8) x 16; memcmp/bcmp n<=40 x 16 x 16 x positions {{none, first, middle, last}} x 6 pairs; compiler-inserted copies",
            MODES.join(", ")
        ));
        'builds: for build in 0..MODES.len() {
            let (results, end) = run_batch(build, &share);
            let answered = results.len();
            for (c, res) in share.iter().zip(results) {
                let pc = ProbeCase { build: build as u8, case: c.clone() };
                let res = match res {
                    Ok(mut r) => {
                        r.class(BUILD_CLASS[build]);
                        Ok(r)
                    }
                    // confirm in a process of its own so that the replay file is self-contained
                    Err(f) => match run_single(ctx, &pc) {
                        Err(f1) => Err(f1),
                        Ok(_) => Err(Failure::new(format!("{} (only inside a batch)", f.sig), format!("{}; the case alone passes - batch = enumeration share {}/{}", f.what, ctx.worker, ctx.nworkers))),
                    },
                };
                if !ctx.run_one("probe-exh", &pc, || res) {
                    continue 'builds;
                }
            }
            match end {
                BatchEnd::Clean => {}
                BatchEnd::Unknown(why) => {
                    eprintln!("[C08 probe] {why}: inconclusive");
                    ctx.inconclusive();
                }
                BatchEnd::Died { how, .. } => {
                    // the first unanswered case is the one it died in
                    let culprit = share.get(answered).cloned().unwrap_or_else(|| MemCase::new(Op::Memcpy, 0));
                    let pc = ProbeCase { build: build as u8, case: culprit };
                    let res = match run_single(ctx, &pc) {
                        Err(f) => Err(f),
                        Ok(_) => Err(Failure::new(
                            format!("mem-symbols|probe crashed|{} (only inside a batch)", MODES[build]),
                            format!("[{}] probe {how} after answering {answered} of {} cases; the next case alone passes", MODES[build], share.len()),
                        )),
                    };
                    ctx.run_one("probe-exh", &pc, || res);
                }
            }
        }
    }

    let list = (0u8..MODES.len() as u8, prop::collection::vec(rand_case(), 1..=12)).prop_map(|(build, cases)| ProbeList { build, cases });
    ctx.run_prop_opts("probe-rand", ctx.cases(40, 1500), 300, list, |l: &ProbeList| {
        let build = (l.build as usize).min(MODES.len() - 1);
        let cases: Vec<MemCase> = l.cases.iter().filter(|c| c.valid()).cloned().collect();
        let (results, end) = run_batch(build, &cases);
        let mut rep = CaseReport::new();
        rep.class(BUILD_CLASS[build]);
        for r in results {
            let r = r?;
            rep.nontrivial |= r.nontrivial;
            for c in r.classes {
                rep.class(c);
            }
        }
        match end {
            BatchEnd::Clean => Ok(rep),
            BatchEnd::Died { answered, how } => Err(Failure::new(format!("mem-symbols|probe crashed|{}", MODES[build]), format!("[{}] probe {how} while executing {:?}", MODES[build], cases.get(answered)))),
            BatchEnd::Unknown(why) => {
                eprintln!("[C08 probe] {why}: inconclusive");
                ctx.inconclusive();
                Ok(rep)
            }
        }
    });
}
