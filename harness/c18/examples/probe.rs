use rusl::io_uring::*;
use rusl::platform::*;
use rusl::string::unix_str::UnixString;

fn submit_wait(ring: &mut IoUring, sqes: Vec<IoUringSubmissionQueueEntry>) -> Vec<(u64, i32, u32)> {
    let n = sqes.len() as u32;
    for s in sqes {
        let slot = ring.get_next_sqe_slot().unwrap();
        unsafe { slot.write(s) };
    }
    let f = ring.flush_submission_queue();
    let r = io_uring_enter(ring.fd, n, n, IoUringEnterFlags::IORING_ENTER_GETEVENTS);
    println!("  flush={f} enter={r:?}");
    let mut out = vec![];
    while let Some(c) = ring.get_next_cqe() {
        out.push((c.0.user_data, c.0.res, c.0.flags));
    }
    out
}

fn main() {
    for (name, fl) in [
        ("default", IoUringParamFlags::empty()),
        ("clamp", IoUringParamFlags::IORING_SETUP_CLAMP),
        ("sqe128", IoUringParamFlags::IORING_SETUP_SQE128),
        ("cqe32", IoUringParamFlags::IORING_SETUP_CQE32),
        ("sqe128|cqe32", IoUringParamFlags::IORING_SETUP_SQE128 | IoUringParamFlags::IORING_SETUP_CQE32),
        ("sqpoll", IoUringParamFlags::IORING_SETUP_SQPOLL),
        ("submit_all", IoUringParamFlags::IORING_SETUP_SUBMIT_ALL),
        ("coop", IoUringParamFlags::IORING_SETUP_COOP_TASKRUN),
        ("single_issuer|defer", IoUringParamFlags::IORING_SETUP_SINGLE_ISSUER | IoUringParamFlags::IORING_SETUP_DEFER_TASKRUN),
    ] {
        for entries in [1u32, 3, 32] {
            sc::verif::log_begin();
            let r = setup_io_uring(entries, fl, 0, 10);
            let log = sc::verif::log_end();
            match r {
                Ok(ring) => {
                    println!("{name} entries={entries}: ok fd={}", ring.fd);
                    for c in &log {
                        println!("   setup call nr={} args={:x?} ret={:x}", c.nr, &c.args[..c.nargs as usize], c.ret);
                    }
                    sc::verif::log_begin();
                    drop(ring);
                    let log = sc::verif::log_end();
                    for c in &log {
                        println!("   drop call nr={} args={:x?} ret={:x}", c.nr, &c.args[..c.nargs as usize], c.ret as isize);
                    }
                }
                Err(e) => println!("{name} entries={entries}: ERR {e:?}"),
            }
        }
    }
    // op probe
    let root = format!("/tmp/verif-c18-probe-{}", std::process::id());
    std::fs::create_dir_all(&root).unwrap();
    std::fs::write(format!("{root}/f"), b"hello world").unwrap();
    let mut ring = setup_io_uring(8, IoUringParamFlags::empty(), 0, 0).unwrap();
    let p = UnixString::try_from_str(&format!("{root}/f")).unwrap();
    let missing = UnixString::try_from_str(&format!("{root}/missing")).unwrap();
    let dpath = UnixString::try_from_str(&format!("{root}/d")).unwrap();
    let d2path = UnixString::try_from_str(&format!("{root}/d2")).unwrap();
    unsafe {
        let fd = rusl::unistd::open(&p, OpenFlags::O_RDWR).unwrap();
        let mut buf = [0u8; 32];
        let mut iov = [IoSliceMut::new(&mut buf[..4]), IoSliceMut::new(&mut buf[8..12])];
        let r = submit_wait(&mut ring, vec![IoUringSubmissionQueueEntry::new_readv(fd, iov.as_mut_ptr() as usize, 2, 1, IoUringSQEFlags::empty())]);
        println!("readv {r:?} buf={:?}", &buf[..12]);
        let r = submit_wait(&mut ring, vec![IoUringSubmissionQueueEntry::new_readv(fd, iov.as_mut_ptr() as usize, 2, 1, IoUringSQEFlags::empty())]);
        println!("readv again (pos?) {r:?} buf={:?}", &buf[..12]);
        let mut sx: core::mem::MaybeUninit<Statx> = core::mem::MaybeUninit::zeroed();
        let r = submit_wait(&mut ring, vec![
            IoUringSubmissionQueueEntry::new_openat(None, &missing, OpenFlags::O_RDONLY, Mode::empty(), 10, IoUringSQEFlags::IOSQE_IO_LINK),
            IoUringSubmissionQueueEntry::new_statx(None, &p, StatxFlags::empty(), StatxMask::STATX_BASIC_STATS, sx.as_mut_ptr(), 11, IoUringSQEFlags::IOSQE_IO_LINK),
            IoUringSubmissionQueueEntry::new_mkdirat(None, &dpath, Mode::from(0o755), 12, IoUringSQEFlags::empty()),
            IoUringSubmissionQueueEntry::new_mkdirat(None, &dpath, Mode::from(0o755), 13, IoUringSQEFlags::empty()),
        ]);
        println!("chain fail {r:?}");
        let r = submit_wait(&mut ring, vec![
            IoUringSubmissionQueueEntry::new_rename_at(None, None, &dpath, &d2path, RenameFlags::empty(), 20, IoUringSQEFlags::IOSQE_IO_LINK),
            IoUringSubmissionQueueEntry::new_unlink_at(None, &d2path, false, 21, IoUringSQEFlags::IOSQE_IO_LINK),
            IoUringSubmissionQueueEntry::new_unlink_at(None, &d2path, true, 22, IoUringSQEFlags::empty()),
        ]);
        println!("rename/unlink(EISDIR)/rmdir(cancel) {r:?}");
        let r = submit_wait(&mut ring, vec![
            IoUringSubmissionQueueEntry::new_unlink_at(None, &d2path, true, 22, IoUringSQEFlags::empty()),
        ]);
        println!("rmdir {r:?}");
        // short read in chain
        let mut big = [0u8; 64];
        let mut iov2 = [IoSliceMut::new(&mut big)];
        let r = submit_wait(&mut ring, vec![
            IoUringSubmissionQueueEntry::new_readv(fd, iov2.as_mut_ptr() as usize, 1, 30, IoUringSQEFlags::IOSQE_IO_LINK),
            IoUringSubmissionQueueEntry::new_statx(None, &p, StatxFlags::empty(), StatxMask::STATX_BASIC_STATS, sx.as_mut_ptr(), 31, IoUringSQEFlags::empty()),
        ]);
        println!("short read chain {r:?}");
        // timeout
        let ts = TimeSpec::new(0, 1_000_000);
        let r = submit_wait(&mut ring, vec![
            IoUringSubmissionQueueEntry::new_timeout(&ts, true, None, 40, IoUringSQEFlags::IOSQE_IO_LINK),
            IoUringSubmissionQueueEntry::new_statx(None, &p, StatxFlags::empty(), StatxMask::STATX_BASIC_STATS, sx.as_mut_ptr(), 41, IoUringSQEFlags::empty()),
        ]);
        println!("timeout chain {r:?}");
        let tsabs = TimeSpec::new(0, 5);
        let r = submit_wait(&mut ring, vec![IoUringSubmissionQueueEntry::new_timeout(&tsabs, false, None, 42, IoUringSQEFlags::empty())]);
        println!("timeout abs past {r:?}");
        let r = submit_wait(&mut ring, vec![IoUringSubmissionQueueEntry::new_timeout(&ts, true, Some(1), 43, IoUringSQEFlags::empty()),
            IoUringSubmissionQueueEntry::new_statx(None, &p, StatxFlags::empty(), StatxMask::STATX_BASIC_STATS, sx.as_mut_ptr(), 44, IoUringSQEFlags::empty())]);
        println!("timeout count1 {r:?}");
        // poll
        let r = submit_wait(&mut ring, vec![IoUringSubmissionQueueEntry::new_poll_add(fd, PollEvents::POLLIN | PollEvents::POLLOUT | PollEvents::POLLRDNORM, PollAddMultiFlags::empty(), 50, IoUringSQEFlags::empty())]);
        println!("poll {r:?}");
        let mut pfd = libc::pollfd { fd: fd.value(), events: libc::POLLIN | libc::POLLOUT | libc::POLLRDNORM, revents: 0 };
        println!("direct poll {} revents={:x}", libc::poll(&mut pfd, 1, 0), pfd.revents);
        // close bad
        let bad = Fd::try_new(i32::MAX - 8).unwrap();
        let r = submit_wait(&mut ring, vec![IoUringSubmissionQueueEntry::new_close(bad, 60, IoUringSQEFlags::empty()),
            IoUringSubmissionQueueEntry::new_readv(bad, iov.as_mut_ptr() as usize, 2, 61, IoUringSQEFlags::empty()),
            IoUringSubmissionQueueEntry::new_poll_add(bad, PollEvents::POLLIN, PollAddMultiFlags::empty(), 62, IoUringSQEFlags::empty()),
            IoUringSubmissionQueueEntry::new_openat(Some(bad), rusl::unix_lit!("x"), OpenFlags::O_RDONLY, Mode::empty(), 63, IoUringSQEFlags::empty()),
        ]);
        println!("bad fd {r:?}");
        // socket
        let r = submit_wait(&mut ring, vec![IoUringSubmissionQueueEntry::new_socket(AddressFamily::AF_UNIX, SocketOptions::new(SocketType::SOCK_STREAM, SocketFlags::SOCK_CLOEXEC), 0, 70, IoUringSQEFlags::empty()),
            IoUringSubmissionQueueEntry::new_socket(AddressFamily::AF_UNIX, SocketOptions::new(SocketType::SOCK_STREAM, SocketFlags::SOCK_CLOEXEC), 99, 71, IoUringSQEFlags::empty()),
            IoUringSubmissionQueueEntry::new_socket(AddressFamily::AF_INET, SocketOptions::new(SocketType::SOCK_STREAM, SocketFlags::SOCK_NONBLOCK), 17, 72, IoUringSQEFlags::empty()),
        ]);
        println!("socket {r:?}");
        let sock = Fd::try_new(r.iter().find(|x| x.0 == 70).unwrap().1).unwrap();
        // listener direct
        let sp = UnixString::try_from_str(&format!("{root}/sock")).unwrap();
        let arg = SocketAddressUnix::try_from_unix(&sp).unwrap();
        let srv = rusl::network::socket(AddressFamily::AF_UNIX, SocketOptions::new(SocketType::SOCK_STREAM, SocketFlags::empty()), 0).unwrap();
        rusl::network::bind_unix(srv, &arg).unwrap();
        rusl::network::listen(srv, NonNegativeI32::comptime_checked_new(8)).unwrap();
        let r = submit_wait(&mut ring, vec![IoUringSubmissionQueueEntry::new_connect_unix(sock, &arg, 80, IoUringSQEFlags::empty())]);
        println!("connect via ring {r:?}");
        let s2 = rusl::network::socket(AddressFamily::AF_UNIX, SocketOptions::new(SocketType::SOCK_STREAM, SocketFlags::empty()), 0).unwrap();
        println!("direct connect {:?}", rusl::network::connect_unix(s2, &arg));
        // accept with out params, padded
        let mut abuf = vec![0u8; 4096];
        let mut lbuf = vec![0u64; 512];
        lbuf[0] = 110;
        let r = submit_wait(&mut ring, vec![IoUringSubmissionQueueEntry::new_accept_unix(srv, abuf.as_mut_ptr().cast(), lbuf.as_mut_ptr(), SocketFlags::SOCK_CLOEXEC, 90, IoUringSQEFlags::empty())]);
        println!("accept via ring {r:?} addr[..8]={:?} len={:?}", &abuf[..8], &lbuf[..2]);
        let s3 = rusl::network::socket(AddressFamily::AF_UNIX, SocketOptions::new(SocketType::SOCK_STREAM, SocketFlags::empty()), 0).unwrap();
        println!("direct connect {:?}", rusl::network::connect_unix(s3, &arg));
        let mut sa: libc::sockaddr_un = core::mem::zeroed();
        let mut sl: libc::socklen_t = 110;
        let a = libc::accept4(srv.value(), (&mut sa as *mut libc::sockaddr_un).cast(), &mut sl, libc::SOCK_CLOEXEC);
        println!("direct accept {a} family={} len={}", sa.sun_family, sl);
    }
    drop(ring);
    std::fs::remove_dir_all(&root).unwrap();
}
