//! C18 — io_uring operations complete once with the direct system call's result; teardown is
//! exact. Engines: E1 (in-process harness) + E2 (`sc` interposer log for set-up/drop), real kernel.
//!
//! Sub-checks (failure signatures `<constructor or operation>|<class>|<shape>`):
//! * `drop`  — interposer log across `drop(ring)`: each mapping of `setup_io_uring` unmapped
//!             exactly once with its length, ring descriptor closed once, nothing else.
//!             Exhaustive over ring sizes 1..=32 x accepted flag sets.
//! * `fs`    — twin directories: batches of linked/independent entries through the ring vs.
//!             direct calls (hand-written one-constructor cases first, then generated ones).
//! * `sock`  — twin sockets: socket/connect/accept/sendmsg/recvmsg/poll/close likewise.
//! * `soak`  — thousands of generated `fs` batches on one ring (slots cycle many times).
//! The differential sub-checks never judge teardown.
mod fs;
mod ring;
mod sock;
mod sys;
mod peek;
mod tcount;
mod teardown;

use proptest::prelude::*;
use proptest::strategy::ValueTree;
use proptest::test_runner::{Config, RngAlgorithm, TestRng, TestRunner};
use serde::{Deserialize, Serialize};
use serde_json::json;
use vh::runner::{CaseResult, Ctx};

use fs::{Batch, Chain, DirRef, FdRef, FsCase, Op, OpG};
use ring::RingCfg;
use sock::{SChain, SOp, SOpG, SRef, SockCase, Step};

#[derive(Debug, Clone, Serialize, Deserialize)]
pub struct SoakCase {
    pub cfg: RingCfg,
    pub seed: u64,
    pub nbatches: u32,
}

/// Deterministic expansion of a soak case into batches, using the `fs` batch strategy with a
/// generator seeded from the case.
fn soak_batches(seed: u64, n: u32) -> Vec<Batch> {
    let mut bytes = [0u8; 32];
    for (i, ch) in bytes.chunks_mut(8).enumerate() {
        ch.copy_from_slice(&vh::runner::splitmix(seed.wrapping_add(i as u64)).to_le_bytes());
    }
    let mut runner = TestRunner::new_with_rng(Config::default(), TestRng::from_seed(RngAlgorithm::ChaCha, &bytes));
    let strat = fs::batch_strategy();
    (0..n).map(|_| strat.new_tree(&mut runner).expect("batch strategy never rejects").current()).collect()
}

fn run_soak(ctx: &Ctx, c: &SoakCase) -> CaseResult {
    let case = FsCase { cfg: c.cfg, sizes: [120, 7], batches: soak_batches(c.seed, c.nbatches) };
    fs::run_case(ctx, &case)
}

/// A completion that never arrives costs the 30 s hang guard per evaluation; shrinking such a
/// case would take hours. Once a case has hit the guard, every *other* candidate the shrinker
/// proposes is waved through, so the case is reported as it was generated (it still replays).
struct HangGate(std::cell::RefCell<Option<(u64, vh::runner::Failure)>>);

impl HangGate {
    fn new() -> HangGate {
        HangGate(std::cell::RefCell::new(None))
    }
    fn run<C: Serialize>(&self, c: &C, f: impl FnOnce() -> CaseResult) -> CaseResult {
        let h = vh::runner::hash_str(&serde_json::to_string(c).unwrap());
        if let Some((orig, fl)) = &*self.0.borrow() {
            // the shrinker comes back to the original value many times: its verdict is known
            return if h == *orig { Err(fl.clone()) } else { Ok(vh::runner::CaseReport::new()) };
        }
        let r = f();
        if let Err(fl) = &r {
            if fl.sig.contains("|hang guard") {
                *self.0.borrow_mut() = Some((h, fl.clone()));
            }
        }
        r
    }
}

fn g(op: Op) -> OpG {
    OpG { op, a: false }
}

fn one(ops: Vec<Op>) -> Batch {
    Batch { chains: vec![Chain { lane: 0, ops: ops.into_iter().map(g).collect(), hard: false }] }
}

/// One small scenario per constructor (success and failure paths), so that a defect confined to
/// one constructor is reported under that constructor's name whatever the random cases hit first.
fn fs_each() -> Vec<FsCase> {
    let s = |b: Vec<Batch>| FsCase { cfg: RingCfg::plain(8), sizes: [50, 20], batches: b };
    let d = DirRef::LaneDir;
    vec![
        s(vec![one(vec![Op::Readv { fd: FdRef::Slot(0), lens: vec![10, 0, 25] }]), one(vec![Op::Readv { fd: FdRef::Slot(1), lens: vec![64] }]), one(vec![Op::Readv { fd: FdRef::Bad, lens: vec![4] }]), one(vec![Op::Readv { fd: FdRef::Dir, lens: vec![4] }]), one(vec![Op::Readv { fd: FdRef::Reg(0), lens: vec![30, 30] }])]),
        s(vec![one(vec![Op::Writev { fd: FdRef::Slot(0), lens: vec![10, 3], fill: 9 }]), one(vec![Op::Writev { fd: FdRef::Slot(2), lens: vec![5], fill: 1 }]), one(vec![Op::Writev { fd: FdRef::Slot(1), lens: vec![5], fill: 1 }]), one(vec![Op::Writev { fd: FdRef::Reg(1), lens: vec![100, 100, 100], fill: 3 }]), one(vec![Op::Readv { fd: FdRef::Slot(0), lens: vec![64] }])]),
        s(vec![one(vec![Op::ReadFixed { fd: FdRef::Slot(0), off: 16, len: 40, bad: 0 }]), one(vec![Op::ReadFixed { fd: FdRef::Reg(0), off: 0, len: 256, bad: 0 }]), one(vec![Op::ReadFixed { fd: FdRef::Slot(0), off: 0, len: 8, bad: 1 }]), one(vec![Op::ReadFixed { fd: FdRef::Slot(0), off: 0, len: 8, bad: 2 }]), one(vec![Op::ReadFixed { fd: FdRef::Reg(2), off: 0, len: 8, bad: 0 }])]),
        s(vec![one(vec![Op::WriteFixed { fd: FdRef::Slot(0), off: 3, len: 100, bad: 0 }]), one(vec![Op::WriteFixed { fd: FdRef::Reg(1), off: 200, len: 56, bad: 0 }]), one(vec![Op::WriteFixed { fd: FdRef::Slot(1), off: 0, len: 8, bad: 0 }]), one(vec![Op::WriteFixed { fd: FdRef::Bad, off: 0, len: 8, bad: 0 }])]),
        s(vec![
            one(vec![Op::Openat { dir: d, name: 0, o: 2, mode: 0 }]),
            one(vec![Op::Openat { dir: DirRef::Abs, name: 2, o: 1 | 4 | 8, mode: 0o640 }]),
            one(vec![Op::Openat { dir: d, name: 2, o: 1 | 4 | 8, mode: 0o640 }]),
            one(vec![Op::Openat { dir: d, name: 3, o: 0, mode: 0 }]),
            one(vec![Op::Openat { dir: d, name: 4, o: 1 << 6, mode: 0 }]),
            one(vec![Op::Openat { dir: DirRef::BadFd, name: 0, o: 0, mode: 0 }]),
            one(vec![Op::Openat { dir: d, name: 13, o: 1 << 7, mode: 0 }]),
            one(vec![Op::Openat { dir: d, name: 1, o: 1 | 1 << 4 | 1 << 5 | 1 << 9 | 1 << 10, mode: 0 }]),
            one(vec![Op::Readv { fd: FdRef::Slot(3), lens: vec![16] }, Op::Writev { fd: FdRef::Slot(4), lens: vec![16], fill: 2 }]),
        ]),
        s(vec![one(vec![Op::Close { fd: FdRef::Slot(0) }]), one(vec![Op::Close { fd: FdRef::Slot(0) }]), one(vec![Op::Close { fd: FdRef::Bad }]), one(vec![Op::Close { fd: FdRef::Slot(1) }, Op::Readv { fd: FdRef::Slot(1), lens: vec![4] }])]),
        s(vec![one(vec![Op::Statx { dir: d, name: 0, mask: 0x7ff, fl: 0 }]), one(vec![Op::Statx { dir: DirRef::Abs, name: 4, mask: 0x3fff, fl: 0 }]), one(vec![Op::Statx { dir: d, name: 3, mask: 0x7ff, fl: 0 }]), one(vec![Op::Statx { dir: d, name: 15, mask: 0x7ff, fl: 1 }]), one(vec![Op::Statx { dir: d, name: 0, mask: 0x7ff, fl: 16 }]), one(vec![Op::Statx { dir: DirRef::NotDir, name: 0, mask: 1, fl: 0 }])]),
        s(vec![one(vec![Op::Mkdirat { dir: d, name: 5, mode: 0o750 }]), one(vec![Op::Mkdirat { dir: d, name: 5, mode: 0o750 }]), one(vec![Op::Mkdirat { dir: DirRef::Abs, name: 8, mode: 0o700 }]), one(vec![Op::Mkdirat { dir: d, name: 9, mode: 0o700 }]), one(vec![Op::Mkdirat { dir: d, name: 12, mode: 0o700 }])]),
        s(vec![one(vec![Op::Unlinkat { dir: d, name: 0, rmdir: false }]), one(vec![Op::Unlinkat { dir: d, name: 0, rmdir: false }]), one(vec![Op::Unlinkat { dir: d, name: 4, rmdir: false }]), one(vec![Op::Unlinkat { dir: d, name: 4, rmdir: true }]), one(vec![Op::Unlinkat { dir: DirRef::Abs, name: 6, rmdir: false }, Op::Unlinkat { dir: d, name: 4, rmdir: true }]), one(vec![Op::Unlinkat { dir: d, name: 1, rmdir: true }])]),
        s(vec![
            one(vec![Op::Renameat { odir: d, oname: 0, ndir: d, nname: 2, fl: 0 }]),
            one(vec![Op::Renameat { odir: DirRef::Abs, oname: 2, ndir: d, nname: 1, fl: 1 }]),
            one(vec![Op::Renameat { odir: d, oname: 2, ndir: DirRef::Abs, nname: 1, fl: 2 }]),
            one(vec![Op::Renameat { odir: d, oname: 3, ndir: d, nname: 0, fl: 0 }]),
            one(vec![Op::Renameat { odir: d, oname: 4, ndir: d, nname: 5, fl: 0 }]),
            one(vec![Op::Renameat { odir: d, oname: 1, ndir: DirRef::BadFd, nname: 0, fl: 0 }]),
            one(vec![Op::Renameat { odir: d, oname: 1, ndir: d, nname: 2, fl: 3 }]),
        ]),
        s(vec![one(vec![Op::Timeout { us: 300, abs: false, count: 0 }]), one(vec![Op::Timeout { us: 300, abs: true, count: 0 }]), one(vec![Op::Timeout { us: 200, abs: false, count: 2 }]), one(vec![Op::Timeout { us: 100, abs: false, count: 0 }, Op::Mkdirat { dir: d, name: 5, mode: 0o700 }])]),
        s(vec![one(vec![Op::PollAdd { fd: FdRef::Slot(0), ev: 1 | 4 }]), one(vec![Op::PollAdd { fd: FdRef::Dir, ev: 1 | 8 | 16 }]), one(vec![Op::PollAdd { fd: FdRef::Bad, ev: 1 }]), one(vec![Op::PollAdd { fd: FdRef::Reg(0), ev: 4 }])]),
        // the repository's own linked scenario: mkdir, create, stat, remove, rmdir — then the same with a failure in the middle
        s(vec![
            one(vec![Op::Mkdirat { dir: d, name: 5, mode: 0o755 }, Op::Openat { dir: d, name: 8, o: 2 | 4, mode: 0o600 }, Op::Statx { dir: d, name: 8, mask: 0x7ff, fl: 0 }, Op::Unlinkat { dir: d, name: 8, rmdir: false }, Op::Unlinkat { dir: d, name: 5, rmdir: true }]),
            one(vec![Op::Mkdirat { dir: d, name: 5, mode: 0o755 }, Op::Openat { dir: d, name: 9, o: 0, mode: 0 }, Op::Statx { dir: d, name: 5, mask: 0x7ff, fl: 0 }, Op::Unlinkat { dir: d, name: 5, rmdir: true }]),
            one(vec![Op::Statx { dir: d, name: 3, mask: 1, fl: 0 }, Op::Unlinkat { dir: d, name: 3, rmdir: false }, Op::Mkdirat { dir: d, name: 4, mode: 0o700 }, Op::Readv { fd: FdRef::Slot(1), lens: vec![100] }, Op::Statx { dir: d, name: 0, mask: 1, fl: 0 }]),
        ]),
    ]
}

fn sg(op: SOp) -> SOpG {
    SOpG { op, a: false }
}

fn sone(ops: Vec<SOp>) -> Step {
    Step::Batch(vec![SChain { lane: 0, ops: ops.into_iter().map(sg).collect() }])
}

fn sock_each() -> Vec<SockCase> {
    let s = |steps: Vec<Step>| SockCase { cfg: RingCfg::plain(8), ring_connect: true, accept_addr: true, abstract_listener: false, steps };
    let sk = |dom, ty, proto| SOp::Socket { dom, ty, nb: false, ce: true, proto };
    let mut all = vec![
        s(vec![sone(vec![sk(0, 0, 0)]), sone(vec![sk(0, 1, 0)]), sone(vec![sk(1, 0, 1)]), sone(vec![sk(1, 0, 2)]), sone(vec![sk(0, 0, 3)]), sone(vec![sk(3, 0, 0)]), sone(vec![SOp::Socket { dom: 0, ty: 2, nb: true, ce: false, proto: 0 }])]),
        s(vec![sone(vec![sk(0, 0, 0)]), sone(vec![SOp::Connect { sock: SRef::Slot(2), to: 0 }]), sone(vec![SOp::Accept { inet: false, addr: false, nb: false, ce: false }]), sone(vec![SOp::Sendmsg { sock: SRef::Slot(2), lens: vec![7], fill: 1, pass_fd: false, raw: false, fl: 0 }, SOp::Recvmsg { sock: SRef::Slot(3), lens: vec![16], ctrl: false, dontwait: false, peek: false }])]),
        s(vec![sone(vec![sk(0, 0, 0)]), sone(vec![SOp::Connect { sock: SRef::Slot(2), to: 1 }]), sone(vec![SOp::Connect { sock: SRef::Slot(2), to: 2 }]), sone(vec![SOp::Connect { sock: SRef::Slot(0), to: 0 }]), sone(vec![SOp::Connect { sock: SRef::Bad, to: 0 }]), sone(vec![SOp::Connect { sock: SRef::File, to: 0 }])]),
        s(vec![sone(vec![SOp::Accept { inet: false, addr: false, nb: false, ce: true }]), sone(vec![SOp::Accept { inet: false, addr: false, nb: true, ce: false }])]),
        s(vec![sone(vec![SOp::Accept { inet: false, addr: true, nb: false, ce: true }])]),
        s(vec![sone(vec![SOp::Accept { inet: true, addr: false, nb: false, ce: true }])]),
        s(vec![sone(vec![SOp::Accept { inet: true, addr: true, nb: false, ce: true }])]),
        s(vec![
            Step::DirectConnect { lane: 0 },
            sone(vec![SOp::Accept { inet: false, addr: false, nb: false, ce: false }]),
            sone(vec![SOp::Sendmsg { sock: SRef::Slot(0), lens: vec![5, 20], fill: 1, pass_fd: false, raw: false, fl: 0 }]),
            sone(vec![SOp::Recvmsg { sock: SRef::Slot(1), lens: vec![3, 40], ctrl: false, dontwait: false, peek: false }]),
            sone(vec![SOp::Sendmsg { sock: SRef::Slot(1), lens: vec![30], fill: 2, pass_fd: true, raw: false, fl: 0 }]),
            sone(vec![SOp::Recvmsg { sock: SRef::Slot(0), lens: vec![64], ctrl: true, dontwait: false, peek: false }]),
            sone(vec![SOp::Sendmsg { sock: SRef::Slot(0), lens: vec![12], fill: 3, pass_fd: true, raw: true, fl: 2 }]),
            sone(vec![SOp::Recvmsg { sock: SRef::Slot(1), lens: vec![64], ctrl: true, dontwait: true, peek: true }, SOp::Recvmsg { sock: SRef::Slot(1), lens: vec![4], ctrl: false, dontwait: false, peek: false }]),
            sone(vec![SOp::Recvmsg { sock: SRef::Slot(1), lens: vec![64], ctrl: true, dontwait: false, peek: false }]),
            sone(vec![SOp::Recvmsg { sock: SRef::Slot(1), lens: vec![64], ctrl: true, dontwait: false, peek: false }]),
            sone(vec![SOp::Sendmsg { sock: SRef::Bad, lens: vec![1], fill: 0, pass_fd: false, raw: false, fl: 0 }, SOp::Recvmsg { sock: SRef::Slot(0), lens: vec![1], ctrl: false, dontwait: true, peek: false }]),
            sone(vec![SOp::Sendmsg { sock: SRef::File, lens: vec![1], fill: 0, pass_fd: false, raw: true, fl: 0 }]),
            sone(vec![SOp::Recvmsg { sock: SRef::Listener, lens: vec![1], ctrl: false, dontwait: true, peek: false }]),
        ]),
        s(vec![
            Step::DirectConnect { lane: 0 },
            sone(vec![SOp::PollAdd { sock: SRef::Listener, ev: 1 }]),
            sone(vec![SOp::PollAdd { sock: SRef::Slot(0), ev: 1 | 4 }]),
            sone(vec![SOp::Accept { inet: false, addr: false, nb: false, ce: false }]),
            sone(vec![SOp::Sendmsg { sock: SRef::Slot(0), lens: vec![9], fill: 1, pass_fd: false, raw: false, fl: 0 }, SOp::PollAdd { sock: SRef::Slot(1), ev: 1 }]),
            sone(vec![SOp::Close { sock: SRef::Slot(0) }, SOp::PollAdd { sock: SRef::Slot(1), ev: 1 | 64 }]),
            sone(vec![SOp::PollAdd { sock: SRef::Slot(1), ev: 1 }, SOp::Recvmsg { sock: SRef::Slot(1), lens: vec![64], ctrl: false, dontwait: false, peek: false }, SOp::Recvmsg { sock: SRef::Slot(1), lens: vec![64], ctrl: false, dontwait: false, peek: false }]),
            sone(vec![SOp::Close { sock: SRef::Slot(1) }, SOp::Close { sock: SRef::Slot(1) }]),
            sone(vec![SOp::PollAdd { sock: SRef::Bad, ev: 1 }]),
        ]),
    ];
    // the connect and accept cases again with the listeners bound to abstract-namespace names
    let abstract_: Vec<SockCase> = all[1..5].iter().cloned().map(|mut c| {
        c.abstract_listener = true;
        c
    }).collect();
    all.extend(abstract_);
    all
}

pub fn run(ctx: &Ctx) {
    let pr = ring::probe();
    ctx.extra("kernel_probe", serde_json::to_value(pr).unwrap_or(json!(null)));
    if !pr.available {
        eprintln!("[C18] io_uring is not available here ({:?}): nothing can be decided", pr.setup_error);
        ctx.inconclusive();
        return;
    }
    let excluded: Vec<String> = pr.unsupported_ops.clone();
    ctx.extra("opcodes_excluded_unsupported_by_kernel", json!(excluded));
    ctx.extra("setup_flag_sets_refused", json!(pr.refused));

    remove_stale_roots();
    fs::remove_case_root(ctx);
    // (1) teardown
    teardown::run(ctx);
    tcount::run(ctx);
    peek::run(ctx);

    // (2) one scenario per constructor, same case type and sub-check name as the generated ones
    if !ctx.is_replay() {
        for (i, c) in fs_each().iter().enumerate() {
            if i % ctx.nworkers as usize == ctx.worker as usize {
                ctx.run_one("fs", c, || fs::run_case(ctx, c));
            }
        }
        for (i, c) in sock_each().iter().enumerate() {
            if i % ctx.nworkers as usize == ctx.worker as usize {
                ctx.run_one("sock", c, || sock::run_case(ctx, c));
            }
        }
    }

    // (3) generated batches
    let max_b = if ctx.thorough() { 120 } else { 24 };
    let gate = HangGate::new();
    ctx.run_prop("fs", ctx.cases(150, 2500), fs::case_strategy(max_b), |c: &FsCase| gate.run(c, || fs::run_case(ctx, c)));
    let gate = HangGate::new();
    ctx.run_prop("sock", ctx.cases(120, 2000), sock::case_strategy(if ctx.thorough() { 60 } else { 16 }), |c: &SockCase| gate.run(c, || sock::run_case(ctx, c)));

    // (4) one ring, many batches
    let nb = if ctx.thorough() { 1500u32..4000 } else { 200u32..400 };
    let soak = (ring::cfg_strategy(), any::<u64>(), nb).prop_map(|(cfg, seed, nbatches)| SoakCase { cfg, seed, nbatches });
    let gate = HangGate::new();
    ctx.run_prop("soak", ctx.cases(1, 12), soak, |c: &SoakCase| gate.run(c, || run_soak(ctx, c)));

    fs::remove_case_root(ctx);
    ctx.extra("max_batches_on_one_ring", json!(MAX_BATCHES.load(std::sync::atomic::Ordering::Relaxed)));
}

/// World directories left behind by workers that were killed (their pid is gone).
fn remove_stale_roots() {
    let Ok(rd) = std::fs::read_dir("/tmp") else { return };
    for e in rd.flatten() {
        let name = e.file_name().to_string_lossy().to_string();
        let Some(rest) = name.strip_prefix("verif-c18-") else { continue };
        let pid = rest.split('-').next().unwrap_or("");
        if !pid.is_empty() && pid.chars().all(|c| c.is_ascii_digit()) && !std::path::Path::new(&format!("/proc/{pid}")).exists() {
            let _ = std::fs::remove_dir_all(e.path());
        }
    }
}

pub static MAX_BATCHES: std::sync::atomic::AtomicU64 = std::sync::atomic::AtomicU64::new(0);
