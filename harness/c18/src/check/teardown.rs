//! "drop": what `drop(IoUring)` releases, from the interposer log (E2).
//!
//! The mappings are learned from the MMAP calls logged during `setup_io_uring`; the log across
//! `drop(ring)` must release each of them exactly once with its mapped length, close the ring
//! descriptor exactly once, and unmap/close nothing else.
use rusl::io_uring::setup_io_uring;
use serde::{Deserialize, Serialize};
use vh::runner::{no_panic, CaseReport, CaseResult, Ctx, Failure};

use super::ring::{self, RingCfg, Session, Sqe};
use super::sys::{self, RawSqe};

#[derive(Debug, Clone, Serialize, Deserialize)]
pub struct DropCase {
    pub cfg: RingCfg,
    /// number of NOP batches pushed through the ring before it is dropped
    pub used: u8,
}

const NR_MMAP: usize = 9;
const NR_MUNMAP: usize = 11;
const NR_CLOSE: usize = 3;
const NR_IO_URING_SETUP: usize = 425;

fn is_err(v: usize) -> bool {
    v > (-4096isize) as usize
}

pub fn run_case(ctx: &Ctx, case: &DropCase) -> CaseResult {
    let cfg = case.cfg;
    let pr = ring::probe();
    sc::verif::clear_plan();
    sc::verif::log_begin();
    let r = vh::runner::catch(|| setup_io_uring(cfg.entries, cfg.flags(), 0, 5));
    let setup_log = sc::verif::log_end();
    let ring = match r {
        Ok(Ok(r)) => r,
        Ok(Err(e)) => {
            if pr.accepts(&cfg) {
                return Err(Failure::new("setup_io_uring|error|accepted flag set", format!("setup_io_uring({}, {}) failed: {e}", cfg.entries, cfg.flag_name())));
            }
            ctx.inconclusive();
            return Ok(CaseReport::new());
        }
        Err((loc, msg)) => return Err(Failure::new(format!("setup_io_uring|panic|{loc}"), msg)),
    };
    let ring_fd = ring.fd.value();
    // what setup created
    let mut maps: Vec<(usize, usize)> = Vec::new(); // (addr, len), distinct ranges
    let mut nmmap = 0;
    let mut setup_fd: Option<usize> = None;
    for c in &setup_log {
        if c.nr == NR_MMAP && !is_err(c.ret) {
            nmmap += 1;
            if !maps.contains(&(c.ret, c.args[1])) {
                maps.push((c.ret, c.args[1]));
            }
        }
        if c.nr == NR_IO_URING_SETUP && !is_err(c.ret) {
            setup_fd = Some(c.ret);
        }
    }
    if setup_fd != Some(ring_fd as usize) || !(maps.len() == 2 || maps.len() == 3) {
        // the log does not show what the documentation of the set-up describes: do not judge
        eprintln!("[C18 drop] unexpected set-up log: {setup_log:?}");
        let mut s = Session { ring: Some(ring), cfg, sq_entries: cfg.sq_entries(), submitted: 0, batches: 0 };
        s.finish();
        ctx.inconclusive();
        return Ok(CaseReport::new());
    }
    let names: Vec<&str> = if maps.len() == 2 { vec!["single-mmap ring", "sqes"] } else { vec!["sq ring", "cq ring", "sqes"] };
    // optionally use the ring (NOPs written as raw entries: the constructors are not the subject here)
    let mut s = Session { ring: Some(ring), cfg, sq_entries: cfg.sq_entries(), submitted: 0, batches: 0 };
    for i in 0..case.used {
        // small rings: batches of growing size; large rings (several pages of ring memory): every slot of the
        // ring in every batch, so that the far end of each array is used
        let n = if s.sq_entries >= 256 { s.sq_entries } else { 1 + (i as u32 % s.sq_entries) };
        let sqes = (0..n).map(|k| Sqe::Raw(RawSqe { opcode: sys::OP_NOP, user_data: 0x70_0000 + (i as u64) * 8192 + k as u64, ..RawSqe::default() })).collect();
        s.run(sqes)?;
    }
    let ring = s.ring.take().unwrap();
    sc::verif::log_begin();
    let dropped = no_panic("IoUring::drop", move || drop(ring));
    let log = sc::verif::log_end();
    dropped?;

    // Every deviation is collected; the one reported is the first that is not already listed as a
    // known finding, so that a known deviation cannot hide a new one in the same log.
    let mut fails: Vec<Failure> = Vec::new();
    let mut released = vec![0usize; maps.len()];
    let mut closes = 0usize;
    for c in &log {
        if c.nr == NR_MUNMAP {
            let (addr, len) = (c.args[0], c.args[1]);
            if let Some(i) = maps.iter().position(|m| m.0 == addr) {
                if len != maps[i].1 {
                    fails.push(Failure::new(format!("IoUring::drop|wrong-munmap-length|{}", names[i]), format!("{}: munmap({addr:#x}, {len:#x}) but the mapping created by setup_io_uring({}, {}) is {:#x} bytes long", names[i], cfg.entries, cfg.flag_name(), maps[i].1)));
                    continue;
                }
                released[i] += 1;
                if released[i] == 2 {
                    fails.push(Failure::new(
                        format!("IoUring::drop|double-munmap|{}", names[i]),
                        format!("drop of the ring from setup_io_uring({}, {}) calls munmap({addr:#x}, {len:#x}) twice; set-up made {nmmap} mmap calls creating {} ranges {:x?}{}; the second munmap releases whatever has been mapped there since", cfg.entries, cfg.flag_name(), maps.len(), maps, if maps.len() == 2 { " (IORING_FEAT_SINGLE_MMAP: the completion ring shares the submission ring's mapping)" } else { "" }),
                    ));
                }
            } else {
                fails.push(Failure::new("IoUring::drop|foreign-munmap|range not created by setup", format!("munmap({addr:#x}, {len:#x}) but set-up created {maps:x?}")));
            }
        } else if c.nr == NR_CLOSE {
            if c.args[0] as i32 != ring_fd {
                fails.push(Failure::new("IoUring::drop|foreign-close|descriptor not the ring", format!("close({}) but the ring descriptor is {ring_fd}", c.args[0] as i32)));
                continue;
            }
            closes += 1;
            if closes == 2 {
                fails.push(Failure::new("IoUring::drop|double-close|ring descriptor", format!("close({ring_fd}) twice")));
            }
        }
    }
    for (i, n) in released.iter().enumerate() {
        if *n == 0 {
            fails.push(Failure::new(format!("IoUring::drop|mapping-not-released|{}", names[i]), format!("{} mapping {:#x}+{:#x} of setup_io_uring({}, {}) is not unmapped (with its length) by drop", names[i], maps[i].0, maps[i].1, cfg.entries, cfg.flag_name())));
            // release it ourselves so that the worker does not accumulate mappings
            unsafe {
                libc::munmap(maps[i].0 as *mut libc::c_void, maps[i].1);
            }
        }
    }
    if closes == 0 {
        let still = sys::fd_is_open(ring_fd);
        sys::close_quiet(ring_fd);
        fails.push(Failure::new("IoUring::drop|ring-fd-not-closed|no close call", format!("drop never closes the ring descriptor {ring_fd} (still open afterwards: {still})")));
    }
    if !fails.is_empty() {
        let pick = fails.iter().position(|f| !is_known(ctx, &f.sig)).unwrap_or(0);
        return Err(fails.swap_remove(pick));
    }
    let mut rep = CaseReport::new();
    rep.nontrivial = true;
    rep.class_if(maps.len() == 2, "single-mmap");
    rep.class_if(maps.len() == 3, "three-mappings");
    rep.class_if(case.used > 0, "ring-used-before-drop");
    rep.class_if(cfg.sqe128, "sqe128");
    rep.class_if(cfg.cqe32, "cqe32");
    rep.class_if(cfg.sqpoll, "sqpoll");
    rep.class_if(cfg.entries != cfg.sq_entries(), "entries-not-power-of-two");
    Ok(rep)
}

/// "setup-failure": a set-up that fails half way (the k-th mmap is refused) is a teardown of its own: what the
/// earlier steps created - the ring descriptor, the mappings made so far - must be released exactly once, each
/// mapping with its length, and nothing else unmapped or closed.
#[derive(Debug, Clone, Serialize, Deserialize)]
pub struct SetupFailCase {
    pub cfg: RingCfg,
    /// which mmap call of the set-up is refused (0-based)
    pub fail_mmap: u8,
}

pub fn run_setup_failure(ctx: &Ctx, case: &SetupFailCase) -> CaseResult {
    let cfg = case.cfg;
    let mut rep = CaseReport::new();
    sc::verif::plan(vec![sc::verif::Rule { nr: Some(NR_MMAP), nth: Some(case.fail_mmap as usize), action: sc::verif::Action::ForceRet(sc::verif::neg_errno(libc::ENOMEM)), times: 1 }]);
    sc::verif::log_begin();
    let r = vh::runner::catch(|| setup_io_uring(cfg.entries, cfg.flags(), 0, 5));
    let log = sc::verif::log_end();
    let injected = sc::verif::forced_count() > 0;
    sc::verif::clear_plan();
    let what = format!("setup_io_uring({}, {}) with its mmap call #{} refused (ENOMEM)", cfg.entries, cfg.flag_name(), case.fail_mmap);
    let ring = match r {
        Err((loc, msg)) => return Err(Failure::new(format!("setup_io_uring|panic|{loc}"), format!("{what}: {msg}"))),
        Ok(Ok(ring)) => {
            if injected {
                return Err(Failure::new("setup_io_uring|ok-although-a-mapping-failed", format!("{what} returned a ring")));
            }
            // the set-up makes fewer mmap calls than that: nothing was refused
            Some(ring)
        }
        Ok(Err(_)) => None,
    };
    if let Some(ring) = ring {
        let mut s = Session { ring: Some(ring), cfg, sq_entries: cfg.sq_entries(), submitted: 0, batches: 0 };
        s.finish();
        return Ok(rep);
    }
    if !injected {
        // failed on its own account (flag set not accepted here)
        ctx.inconclusive();
        return Ok(rep);
    }
    let mut maps: Vec<(usize, usize, usize)> = Vec::new(); // (addr, len, released)
    let mut fd: Option<(usize, usize)> = None; // (number, closes)
    for c in &log {
        if c.nr == NR_IO_URING_SETUP && !is_err(c.ret) {
            fd = Some((c.ret, 0));
        } else if c.nr == NR_MMAP && !is_err(c.ret) {
            if !maps.iter().any(|m| m.0 == c.ret && m.1 == c.args[1]) {
                maps.push((c.ret, c.args[1], 0));
            }
        } else if c.nr == NR_MUNMAP {
            match maps.iter_mut().find(|m| m.0 == c.args[0]) {
                Some(m) if m.1 == c.args[1] => {
                    m.2 += 1;
                    if m.2 == 2 {
                        return Err(Failure::new("setup_io_uring|double-munmap|failed set-up", format!("{what}: munmap({:#x}, {:#x}) is called twice on the way out (mappings made before the failure: {:x?}); the second call releases whatever has been mapped there since", c.args[0], c.args[1], maps.iter().map(|m| (m.0, m.1)).collect::<Vec<_>>())));
                    }
                }
                Some(m) => return Err(Failure::new("setup_io_uring|wrong-munmap-length|failed set-up", format!("{what}: munmap({:#x}, {:#x}) but that mapping is {:#x} bytes long", c.args[0], c.args[1], m.1))),
                None => return Err(Failure::new("setup_io_uring|foreign-munmap|failed set-up", format!("{what}: munmap({:#x}, {:#x}) of a range the set-up did not create ({:x?})", c.args[0], c.args[1], maps.iter().map(|m| (m.0, m.1)).collect::<Vec<_>>()))),
            }
        } else if c.nr == NR_CLOSE {
            match &mut fd {
                Some((n, closes)) if *n == c.args[0] => {
                    *closes += 1;
                    if *closes == 2 {
                        return Err(Failure::new("setup_io_uring|double-close|failed set-up", format!("{what}: close({n}) twice")));
                    }
                }
                _ => return Err(Failure::new("setup_io_uring|foreign-close|failed set-up", format!("{what}: close({}) of a descriptor the set-up did not create", c.args[0] as i32))),
            }
        }
    }
    for m in &maps {
        if m.2 == 0 {
            unsafe { libc::munmap(m.0 as *mut libc::c_void, m.1) };
            return Err(Failure::new("setup_io_uring|mapping-not-released|failed set-up", format!("{what}: the mapping {:#x}+{:#x} made before the failure is never unmapped", m.0, m.1)));
        }
    }
    match fd {
        Some((n, 0)) => {
            sys::close_quiet(n as i32);
            return Err(Failure::new("setup_io_uring|ring-fd-not-closed|failed set-up", format!("{what}: the ring descriptor {n} is never closed")));
        }
        None => {
            ctx.inconclusive();
            return Ok(rep);
        }
        _ => {}
    }
    rep.nontrivial = true;
    rep.class(["first-mapping-refused", "second-mapping-refused", "third-mapping-refused"][(case.fail_mmap as usize).min(2)]);
    rep.class_if(!maps.is_empty(), "mappings-to-undo");
    Ok(rep)
}

fn is_known(ctx: &Ctx, sig: &str) -> bool {
    ctx.known.iter().any(|k| sig == k.signature || (k.signature.ends_with('*') && sig.starts_with(&k.signature[..k.signature.len() - 1])))
}

/// Evaluate one enumerated case. An unknown failure is reduced to the simplest configuration
/// that fails with the same signature before it is reported (the enumeration has no shrinker).
fn run_and_report(ctx: &Ctx, case: &DropCase) -> bool {
    let eval = |c: &DropCase| -> CaseResult {
        match vh::runner::catch(|| run_case(ctx, c)) {
            Ok(r) => r,
            Err((loc, msg)) => Err(Failure::new(format!("drop|panic|{loc}"), msg)),
        }
    };
    let first = eval(case);
    let sig = match &first {
        Err(f) if !is_known(ctx, &f.sig) => f.sig.clone(),
        _ => return ctx.run_one("drop", case, move || first),
    };
    let mut best = case.clone();
    loop {
        let mut cands: Vec<DropCase> = Vec::new();
        if best.used != 0 {
            cands.push(DropCase { used: 0, ..best.clone() });
        }
        for e in [1u32, 2, 4, best.cfg.entries / 2, best.cfg.entries.saturating_sub(1)] {
            if e >= 1 && e < best.cfg.entries {
                cands.push(DropCase { cfg: RingCfg { entries: e, ..best.cfg }, used: best.used });
            }
        }
        for k in 0..4 {
            let mut c = best.cfg;
            let f = [&mut c.clamp, &mut c.sqe128, &mut c.cqe32, &mut c.sqpoll];
            if *f[k] {
                *f[k] = false;
                cands.push(DropCase { cfg: c, used: best.used });
            }
        }
        let next = cands.into_iter().find(|c| matches!(eval(c), Err(f) if f.sig == sig));
        match next {
            Some(c) => best = c,
            None => break,
        }
    }
    ctx.run_one("drop", &best, || eval(&best))
}

pub fn run(ctx: &Ctx) {
    let pr = ring::probe();
    if ctx.is_replay() {
        if let Some(c) = ctx.replay_case::<DropCase>("drop") {
            ctx.run_one("drop", &c, || run_case(ctx, &c));
        }
        if let Some(c) = ctx.replay_case::<SetupFailCase>("setup-failure") {
            ctx.run_one("setup-failure", &c, || run_setup_failure(ctx, &c));
        }
        return;
    }
    // every accepted flag set x a few ring sizes x each mmap of the set-up refused
    let mut k = 0u32;
    'sf: for entries in [1u32, 4, 8, 33, 256, 4096] {
        for cfg in pr.cfgs(entries) {
            for fail_mmap in 0u8..3 {
                k += 1;
                if k % ctx.nworkers != ctx.worker {
                    continue;
                }
                let case = SetupFailCase { cfg, fail_mmap };
                if !ctx.run_one("setup-failure", &case, || run_setup_failure(ctx, &case)) {
                    break 'sf;
                }
            }
        }
    }
    // exhaustive over the stated domain: entries 1..=32 x accepted flag sets x {fresh, used}
    let mut idx = 0usize;
    let mut total = 0usize;
    let mut ok = true;
    // 1..=32 completely; larger rings (several pages per mapping, where a wrong length is no longer
    // hidden by page rounding) at selected sizes
    'o: for entries in (1..=32u32).chain([33, 48, 64, 65, 100, 128, 200, 256, 512, 1024, 4096]) {
        for cfg in pr.cfgs(entries) {
            for used in [0u8, 5] {
                let mine = idx % ctx.nworkers as usize == ctx.worker as usize;
                idx += 1;
                if !mine {
                    continue;
                }
                total += 1;
                let case = DropCase { cfg, used };
                ok = run_and_report(ctx, &case);
                if !ok {
                    break 'o;
                }
            }
        }
    }
    if ok {
        ctx.note_exhaustive(format!("drop: ring sizes 1..=32 and 33,48,64,65,100,128,200,256,512,1024,4096 x {} accepted flag sets x {{fresh, used}} = {} rings (this worker: {})", pr.accepted.len(), idx, total));
    }
}
