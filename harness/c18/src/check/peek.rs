//! "peek": the non-blocking way of reaping - `io_uring_enter(fd, 0, 0, GETEVENTS)` then
//! `get_next_cqe` until nothing comes, repeated until everything submitted has completed - on
//! rings where that call is what makes completions appear at all: (a) more completions outstanding
//! than the completion ring has slots (the surplus sits in the kernel's overflow list until an
//! enter with GETEVENTS moves it in), (b) rings set up with DEFER_TASKRUN (where the kernel accepts
//! that flag), on which completions of operations that do not finish inline are only posted from
//! such a call. Oracle: every submitted user_data completes exactly once with the result of the
//! direct system call (NOP: 0; close of a descriptor that is not open: -EBADF; poll on a readable
//! socket: the POLLIN bit), within a generous deadline that no correct run comes near.
use rusl::io_uring::{io_uring_enter, setup_io_uring};
use rusl::platform::{IoUringEnterFlags, IoUringParamFlags};
use serde::{Deserialize, Serialize};
use vh::runner::{catch, CaseReport, CaseResult, Ctx, Failure};

use super::sys::{self, RawSqe};

#[derive(Debug, Clone, Serialize, Deserialize)]
pub struct PeekCase {
    pub entries: u32,
    /// batches of `entries` operations submitted before anything is reaped (3 or more overflow the
    /// completion ring, which has 2 x entries slots)
    pub batches: u8,
    /// 0 NOP, 1 close of a descriptor that is not open
    pub op: u8,
    /// set the ring up with SINGLE_ISSUER | DEFER_TASKRUN and add one poll per batch on a socket made
    /// readable only after submission
    pub defer: bool,
    /// every enter hands the kernel only half of what is flushed (at least one entry); the rest stays queued
    /// while the next batch asks for slots, and is submitted at the end
    #[serde(default)]
    pub partial: bool,
    /// the ring has a kernel submission thread (SQPOLL, idle time 5 ms) and the caller follows the protocol for
    /// such rings: after every flush one look at `needs_wakeup()`, and an enter with SQ_WAKEUP if it says so.
    /// After the batches the caller stays quiet for 40 ms (the thread goes to sleep, completions that did not
    /// fit are still held back by the kernel), submits one more operation the same way, and only then reaps
    #[serde(default)]
    pub sqpoll: bool,
}

fn sqpoll_supported() -> bool {
    use std::sync::OnceLock;
    static S: OnceLock<bool> = OnceLock::new();
    *S.get_or_init(|| matches!(catch(|| setup_io_uring(2, IoUringParamFlags::IORING_SETUP_SQPOLL, 0, 5).is_ok()), Ok(true)))
}

fn run_sqpoll(c: &PeekCase) -> CaseResult {
    use std::time::{Duration, Instant};
    let mut rep = CaseReport::new();
    if !sqpoll_supported() {
        return Ok(rep);
    }
    let entries = c.entries.clamp(1, 16);
    let mut ring = match catch(|| setup_io_uring(entries, IoUringParamFlags::IORING_SETUP_SQPOLL, 0, 5)) {
        Ok(Ok(r)) => r,
        _ => return Ok(rep),
    };
    let sq = entries.next_power_of_two();
    let fd = ring.fd;
    let bad = sys::bad_fd(3);
    let batches = c.batches.clamp(1, 5);
    let mut expected: Vec<(u64, i32)> = Vec::new();
    let mut ud = 0xa100u64;
    let t0 = Instant::now();
    let mut late_wake = false;
    let wake = |ring: &rusl::platform::IoUring| -> Result<bool, Failure> {
        // store(tail) ; full barrier ; load(flags) - the barrier is the caller's job
        core::sync::atomic::fence(core::sync::atomic::Ordering::SeqCst);
        match catch(|| ring.needs_wakeup()) {
            Ok(true) => match catch(|| io_uring_enter(fd, 0, 0, IoUringEnterFlags::IORING_ENTER_SQ_WAKEUP)) {
                Ok(Ok(_)) => Ok(true),
                Ok(Err(e)) => Err(Failure::new("peek|io_uring_enter|error", format!("io_uring_enter(0, 0, SQ_WAKEUP) failed: {e}"))),
                Err((loc, msg)) => Err(Failure::new(format!("peek|panic|{loc}"), msg)),
            },
            Ok(false) => Ok(false),
            Err((loc, msg)) => Err(Failure::new(format!("peek|panic|{loc}"), msg)),
        }
    };
    for b in 0..=batches {
        let late = b == batches;
        if late {
            std::thread::sleep(Duration::from_millis(40));
        }
        for _ in 0..if late { 1 } else { sq } {
            // the submission thread frees slots as it consumes them
            let slot = loop {
                match catch(|| ring.get_next_sqe_slot()) {
                    Ok(Some(s)) => break Some(s),
                    Ok(None) => {
                        if t0.elapsed() > Duration::from_secs(5) {
                            break None;
                        }
                        wake(&ring)?;
                        std::thread::yield_now();
                    }
                    Err((loc, msg)) => return Err(Failure::new(format!("peek|panic|{loc}"), msg)),
                }
            };
            let Some(slot) = slot else {
                // no slot for seconds: not what this case is about
                let _ = catch(move || drop(ring));
                return Ok(rep);
            };
            let (sqe, want) = if c.op == 1 { (RawSqe { opcode: sys::OP_CLOSE, fd: bad, user_data: ud, ..RawSqe::default() }, -libc::EBADF) } else { (RawSqe { opcode: sys::OP_NOP, user_data: ud, ..RawSqe::default() }, 0) };
            unsafe { slot.cast::<RawSqe>().write(sqe) };
            expected.push((ud, want));
            ud += 1;
        }
        if let Err((loc, msg)) = catch(|| ring.flush_submission_queue()) {
            return Err(Failure::new(format!("peek|panic|{loc}"), msg));
        }
        let woke = wake(&ring)?;
        late_wake |= late && woke;
    }
    let mut got: Vec<(u64, i32)> = Vec::new();
    let t1 = Instant::now();
    let mut idle = 0u32;
    while got.len() < expected.len() && t1.elapsed() < Duration::from_secs(6) {
        match catch(|| io_uring_enter(fd, 0, 0, IoUringEnterFlags::IORING_ENTER_GETEVENTS)) {
            Ok(Ok(_)) => {}
            Ok(Err(e)) if matches!(e.code, Some(rusl::error::Errno::EINTR) | Some(rusl::error::Errno::EBUSY) | Some(rusl::error::Errno::EAGAIN)) => {}
            Ok(Err(e)) => return Err(Failure::new("peek|io_uring_enter|error", format!("io_uring_enter(0, 0, GETEVENTS) failed: {e}"))),
            Err((loc, msg)) => return Err(Failure::new(format!("peek|panic|{loc}"), msg)),
        }
        let before = got.len();
        while let Some(cqe) = ring.get_next_cqe() {
            got.push((cqe.0.user_data, cqe.0.res));
            if got.len() > expected.len() + 8 {
                break;
            }
        }
        if got.len() == before {
            idle += 1;
            std::thread::sleep(Duration::from_micros(if idle < 50 { 100 } else { 2000 }));
        }
    }
    let _ = catch(move || drop(ring));
    let overflowed = expected.len() - 1 > 2 * sq as usize;
    let what = format!("SQPOLL ring of {entries} entries ({sq} submission / {} completion slots, idle 5 ms), {batches} batches of {sq} {} handed over with flush + needs_wakeup + enter(SQ_WAKEUP), nothing reaped, 40 ms of quiet, one more operation handed over the same way, then reaped with io_uring_enter(0, 0, GETEVENTS) + get_next_cqe", 2 * sq, ["NOPs", "closes of an unopened descriptor"][c.op.min(1) as usize]);
    let mut g = got.clone();
    g.sort();
    let mut e = expected.clone();
    e.sort();
    if g != e {
        let missing: Vec<u64> = e.iter().filter(|x| !g.iter().any(|y| y.0 == x.0)).map(|x| x.0).collect();
        if !missing.is_empty() {
            let last = missing.contains(&(ud - 1));
            return Err(Failure::new(format!("peek|missing-cqe|submission thread {}", if last { "never picked up the late operation" } else { "lost operations" }), format!("{what}: {} of {} completions never appeared within 6 s (first missing user_data {:#x}; the late operation is {:#x})", missing.len(), expected.len(), missing[0], ud - 1)));
        }
        if let Some(d) = g.windows(2).find(|w| w[0].0 == w[1].0).map(|w| w[0].0) {
            return Err(Failure::new("peek|duplicate-cqe", format!("{what}: user_data {d:#x} completed twice")));
        }
        let (a, b) = g.iter().zip(e.iter()).find(|(a, b)| a != b).unwrap();
        return Err(Failure::new("peek|res-mismatch", format!("{what}: user_data {:#x} completed with {}, the direct call gives {}", a.0, a.1, b.1)));
    }
    rep.nontrivial = true;
    rep.class("sqpoll-ring-driven-by-the-wakeup-protocol");
    rep.class_if(late_wake, "late-operation-needed-a-wakeup");
    rep.class_if(late_wake && overflowed, "late-operation-needed-a-wakeup-while-completions-were-held-back");
    rep.class("judged");
    Ok(rep)
}

fn defer_supported() -> bool {
    use std::sync::OnceLock;
    static S: OnceLock<bool> = OnceLock::new();
    *S.get_or_init(|| matches!(catch(|| setup_io_uring(2, IoUringParamFlags::IORING_SETUP_SINGLE_ISSUER | IoUringParamFlags::IORING_SETUP_DEFER_TASKRUN, 0, 0).is_ok()), Ok(true)))
}

pub fn run_case(c: &PeekCase) -> CaseResult {
    if c.sqpoll {
        return run_sqpoll(c);
    }
    let mut rep = CaseReport::new();
    let defer = c.defer && defer_supported();
    let flags = if defer { IoUringParamFlags::IORING_SETUP_SINGLE_ISSUER | IoUringParamFlags::IORING_SETUP_DEFER_TASKRUN } else { IoUringParamFlags::empty() };
    let entries = c.entries.clamp(1, 16);
    let mut ring = match catch(|| setup_io_uring(entries, flags, 0, 0)) {
        Ok(Ok(r)) => r,
        _ => return Ok(rep),
    };
    let sq = entries.next_power_of_two();
    let fd = ring.fd;
    let bad = sys::bad_fd(3);
    let mut expected: Vec<(u64, i32)> = Vec::new();
    let mut socks: Vec<[i32; 2]> = Vec::new();
    let mut ud = 0x9e00u64;
    let mut fail: Option<Failure> = None;
    let mut pending = 0u32; // flushed, not yet handed to the kernel
    'sub: for b in 0..c.batches.clamp(1, 5) {
        let mut n = 0u32;
        for k in 0..sq {
            let Some(slot) = ring.get_next_sqe_slot() else { break };
            let (sqe, want) = if defer && k == 0 {
                let mut sv = [0i32; 2];
                assert_eq!(0, unsafe { libc::socketpair(libc::AF_UNIX, libc::SOCK_STREAM | libc::SOCK_CLOEXEC, 0, sv.as_mut_ptr()) });
                socks.push(sv);
                (RawSqe { opcode: sys::OP_POLL_ADD, fd: sv[0], op_flags: libc::POLLIN as u32, user_data: ud, ..RawSqe::default() }, libc::POLLIN as i32)
            } else if c.op == 1 {
                (RawSqe { opcode: sys::OP_CLOSE, fd: bad, user_data: ud, ..RawSqe::default() }, -libc::EBADF)
            } else {
                (RawSqe { opcode: sys::OP_NOP, user_data: ud, ..RawSqe::default() }, 0)
            };
            unsafe { slot.cast::<RawSqe>().write(sqe) };
            expected.push((ud, want));
            ud += 1;
            n += 1;
        }
        // what goes to the kernel is what the flush reports as waiting there (entries flushed earlier and not
        // yet handed over included): the number a caller passes on to io_uring_enter
        let reported = ring.flush_submission_queue();
        pending += n;
        if pending == 0 {
            continue;
        }
        if reported != pending && !c.defer {
            fail = Some(Failure::new("peek|flush_submission_queue|reported-count", format!("batch {b}: {pending} flushed entries have not been handed to the kernel yet, flush_submission_queue reports {reported}")));
            break 'sub;
        }
        let n = if c.partial { (reported / 2).max(1) } else { reported };
        pending -= n.min(pending);
        match catch(|| io_uring_enter(fd, n, 0, IoUringEnterFlags::empty())) {
            Ok(Ok(r)) if r == n as usize => {}
            Ok(Ok(r)) => {
                fail = Some(Failure::new("peek|io_uring_enter|submitted-count", format!("batch {b}: io_uring_enter(to_submit {n}) returned {r}")));
                break 'sub;
            }
            Ok(Err(e)) if e.code == Some(rusl::error::Errno::EBUSY) => {
                // the kernel wants completions reaped first: not what this case is about
                for s in &socks {
                    sys::close_quiet(s[0]);
                    sys::close_quiet(s[1]);
                }
                return Ok(rep);
            }
            Ok(Err(e)) => {
                fail = Some(Failure::new("peek|io_uring_enter|error", format!("batch {b}: io_uring_enter(to_submit {n}) failed: {e}")));
                break 'sub;
            }
            Err((loc, msg)) => {
                fail = Some(Failure::new(format!("peek|panic|{loc}"), msg));
                break 'sub;
            }
        }
    }
    // what was left queued goes to the kernel now (in pieces if the completion ring is crowded)
    let mut rounds = 0;
    while fail.is_none() && pending > 0 && rounds < 64 {
        rounds += 1;
        let reported = ring.flush_submission_queue();
        if reported == 0 {
            // the wrapper says nothing is waiting although entries were never handed over: they would never complete
            break;
        }
        match catch(|| io_uring_enter(fd, reported, 0, IoUringEnterFlags::IORING_ENTER_GETEVENTS)) {
            Ok(Ok(r)) => pending -= (r as u32).min(pending),
            Ok(Err(e)) if e.code == Some(rusl::error::Errno::EBUSY) => break,
            Ok(Err(e)) => fail = Some(Failure::new("peek|io_uring_enter|error", format!("io_uring_enter(to_submit {pending}) failed: {e}"))),
            Err((loc, msg)) => fail = Some(Failure::new(format!("peek|panic|{loc}"), msg)),
        }
    }
    if pending > 0 && fail.is_none() && ring.flush_submission_queue() != 0 {
        // the kernel would not take the rest (completion ring crowded): not what this case is about
        for s in &socks {
            sys::close_quiet(s[0]);
            sys::close_quiet(s[1]);
        }
        return Ok(rep);
    }
    // now the sockets become readable: the polls complete asynchronously
    for s in &socks {
        unsafe { libc::write(s[1], b"x".as_ptr().cast(), 1) };
    }
    let mut got: Vec<(u64, i32)> = Vec::new();
    if fail.is_none() {
        let t0 = std::time::Instant::now();
        let mut idle = 0u32;
        while got.len() < expected.len() && t0.elapsed() < std::time::Duration::from_secs(6) {
            match catch(|| io_uring_enter(fd, 0, 0, IoUringEnterFlags::IORING_ENTER_GETEVENTS)) {
                Ok(Ok(_)) => {}
                Ok(Err(e)) => {
                    fail = Some(Failure::new("peek|io_uring_enter|error", format!("io_uring_enter(0, 0, GETEVENTS) failed: {e}")));
                    break;
                }
                Err((loc, msg)) => {
                    fail = Some(Failure::new(format!("peek|panic|{loc}"), msg));
                    break;
                }
            }
            let before = got.len();
            while let Some(cqe) = ring.get_next_cqe() {
                got.push((cqe.0.user_data, cqe.0.res));
                if got.len() > expected.len() + 8 {
                    break;
                }
            }
            if got.len() == before {
                idle += 1;
                std::thread::sleep(std::time::Duration::from_micros(if idle < 50 { 100 } else { 2000 }));
            }
        }
    }
    for s in &socks {
        sys::close_quiet(s[0]);
        sys::close_quiet(s[1]);
    }
    let _ = catch(move || drop(ring));
    if let Some(f) = fail {
        return Err(f);
    }
    let what = format!("ring of {entries} entries ({sq} submission / {} completion slots{}), {} batches of {sq} {} submitted before reaping, reaped with io_uring_enter(0, 0, GETEVENTS) + get_next_cqe", 2 * sq, if defer { ", DEFER_TASKRUN" } else { "" }, c.batches.clamp(1, 5), ["NOPs", "closes of an unopened descriptor"][c.op.min(1) as usize]);
    let mut g = got.clone();
    g.sort();
    let mut e = expected.clone();
    e.sort();
    if g != e {
        let missing: Vec<u64> = e.iter().filter(|x| !g.iter().any(|y| y.0 == x.0)).map(|x| x.0).collect();
        if !missing.is_empty() {
            return Err(Failure::new(format!("peek|missing-cqe|{}", if defer { "deferred task work" } else if expected.len() > 2 * sq as usize { "completion ring overflowed" } else { "no overflow" }), format!("{what}: {} of {} completions never appeared within 6 s (first missing user_data {:#x})", missing.len(), expected.len(), missing[0])));
        }
        let dup = g.windows(2).find(|w| w[0].0 == w[1].0).map(|w| w[0].0);
        if let Some(d) = dup {
            return Err(Failure::new("peek|duplicate-cqe", format!("{what}: user_data {d:#x} completed twice")));
        }
        let (a, b) = g.iter().zip(e.iter()).find(|(a, b)| a != b).unwrap();
        return Err(Failure::new("peek|res-mismatch", format!("{what}: user_data {:#x} completed with {}, the direct call gives {}", a.0, a.1, b.1)));
    }
    rep.nontrivial = expected.len() > 2 * sq as usize || defer;
    rep.class_if(expected.len() > 2 * sq as usize, "completion-ring-overflowed");
    rep.class_if(defer, "defer-taskrun-ring");
    rep.class_if(c.partial, "slots-requested-while-flushed-entries-are-still-queued");
    rep.class_if(!c.defer || defer, "judged");
    Ok(rep)
}

pub fn run(ctx: &Ctx) {
    if let Some(c) = ctx.replay_case::<PeekCase>("peek") {
        ctx.run_one("peek", &c, || run_case(&c));
        return;
    }
    if ctx.is_replay() {
        return;
    }
    let mut k = 0u32;
    for entries in [1u32, 2, 3, 4, 8] {
        for batches in [1u8, 2, 3, 4] {
            for op in [0u8, 1] {
                for (defer, partial, sqpoll) in [(false, false, false), (true, false, false), (false, true, false), (false, false, true)] {
                    if k % ctx.nworkers == ctx.worker {
                        let c = PeekCase { entries, batches, op, defer, partial, sqpoll };
                        if !ctx.run_one("peek", &c, || run_case(&c)) {
                            return;
                        }
                    }
                    k += 1;
                }
            }
        }
    }
}
