//! "timeout-count": an IORING_OP_TIMEOUT armed with a completion count must complete with 0 as
//! soon as that many other completions were posted, long before its (20 s) time limit; a pure
//! time-out (no count) of a few milliseconds must complete with -ETIME. Decided by the RESULT
//! value only - the 20 s limit is below the 30 s hang guard, so an ignored count shows up as
//! -ETIME, never as a harness time-out.
use rusl::platform::{IoUringSQEFlags, IoUringSubmissionQueueEntry, TimeSpec};
use serde::{Deserialize, Serialize};
use vh::runner::{CaseReport, CaseResult, Ctx, Failure};

use super::ring::{RingCfg, Session, Sqe};
use super::sys::{self, RawSqe};

#[derive(Debug, Clone, Serialize, Deserialize)]
pub struct TCountCase {
    pub entries: u32,
    /// completions the timeout waits for (1..=3)
    pub count: u8,
    /// NOPs submitted in the same batch after the timeout (>= count)
    pub nops: u8,
}

pub fn run_case(c: &TCountCase) -> CaseResult {
    let mut rep = CaseReport::new();
    let cfg = RingCfg::plain(c.entries.clamp(4, 32));
    let mut s = match Session::new(cfg) {
        Ok(s) => s,
        Err(_) => return Ok(rep),
    };
    let count = c.count.clamp(1, 3);
    let nops = c.nops.clamp(count, 3);
    let long = Box::new(TimeSpec::new(20, 0));
    let mut sqes = Vec::new();
    let e = unsafe { IoUringSubmissionQueueEntry::new_timeout(&long, true, Some(count as u64), 0x7c00, IoUringSQEFlags::empty()) };
    sqes.push(Sqe::Rusl(e, 0x7c00));
    for k in 0..nops {
        sqes.push(Sqe::Raw(RawSqe { opcode: sys::OP_NOP, user_data: 0x7c10 + k as u64, ..RawSqe::default() }));
    }
    let got = s.run(sqes);
    s.finish();
    let got = got?;
    let t = got.iter().find(|c| c.0 == 0x7c00).map(|c| c.1);
    if t != Some(0) {
        return Err(Failure::new(
            "new_timeout|res-mismatch|completion count not honoured",
            format!("timeout(20 s, relative, await {count} completions) submitted together with {nops} NOPs completed with {t:?}; expected 0 as soon as {count} completions were posted (-62 = -ETIME means the count was ignored and the full 20 s elapsed)"),
        ));
    }
    // and a pure time-out still reports -ETIME
    let mut s = match Session::new(cfg) {
        Ok(s) => s,
        Err(_) => return Ok(rep),
    };
    let short = Box::new(TimeSpec::new(0, 3_000_000));
    let e = unsafe { IoUringSubmissionQueueEntry::new_timeout(&short, true, None, 0x7c20, IoUringSQEFlags::empty()) };
    let got = s.run(vec![Sqe::Rusl(e, 0x7c20)]);
    s.finish();
    let got = got?;
    if got.first().map(|c| c.1) != Some(-libc::ETIME) {
        return Err(Failure::new("new_timeout|res-mismatch|pure time-out", format!("timeout(3 ms, relative, no count) completed with {:?}, expected -ETIME", got.first().map(|c| c.1))));
    }
    rep.nontrivial = true;
    rep.class("timeout-with-completion-count");
    Ok(rep)
}

pub fn run(ctx: &Ctx) {
    if let Some(c) = ctx.replay_case::<TCountCase>("timeout-count") {
        ctx.run_one("timeout-count", &c, || run_case(&c));
        return;
    }
    if ctx.is_replay() {
        return;
    }
    let mut k = 0u32;
    for entries in [4u32, 8] {
        for count in 1u8..=3 {
            for nops in count..=3 {
                if k % ctx.nworkers == ctx.worker {
                    let c = TCountCase { entries, count, nops };
                    ctx.run_one("timeout-count", &c, || run_case(&c));
                }
                k += 1;
            }
        }
    }
}
