//! Reference side of the differential: direct libc calls returning `value or -errno`, raw SQE
//! layout (for probes that must not depend on the constructors under test), descriptor and tree
//! inspection helpers, hang guard.
use std::collections::BTreeMap;
use std::ffi::CString;
use std::os::unix::ffi::OsStrExt;
use std::path::Path;
use std::sync::atomic::{AtomicBool, Ordering};

pub fn errno() -> i32 {
    unsafe { *libc::__errno_location() }
}

/// `r` if non-negative, else `-errno`.
pub fn ret(r: i64) -> i32 {
    if r < 0 {
        -errno()
    } else {
        r as i32
    }
}

pub fn cstr(b: &[u8]) -> CString {
    CString::new(b.to_vec()).expect("no interior NUL in generated paths")
}

// ---------------------------------------------------------------- raw SQE (ABI, 64 bytes)

#[repr(C)]
#[derive(Clone, Copy, Default, Debug)]
pub struct RawSqe {
    pub opcode: u8,
    pub flags: u8,
    pub ioprio: u16,
    pub fd: i32,
    pub off: u64,
    pub addr: u64,
    pub len: u32,
    pub op_flags: u32,
    pub user_data: u64,
    pub buf_index: u16,
    pub personality: u16,
    pub file_index: u32,
    pub addr3: u64,
    pub pad: u64,
}

pub const OP_NOP: u8 = 0;
pub const OP_READV: u8 = 1;
pub const OP_WRITEV: u8 = 2;
pub const OP_READ_FIXED: u8 = 4;
pub const OP_WRITE_FIXED: u8 = 5;
pub const OP_POLL_ADD: u8 = 6;
pub const OP_SENDMSG: u8 = 9;
pub const OP_RECVMSG: u8 = 10;
pub const OP_TIMEOUT: u8 = 11;
pub const OP_ACCEPT: u8 = 13;
pub const OP_CONNECT: u8 = 16;
pub const OP_OPENAT: u8 = 18;
pub const OP_CLOSE: u8 = 19;
pub const OP_STATX: u8 = 21;
pub const OP_RENAMEAT: u8 = 35;
pub const OP_UNLINKAT: u8 = 36;
pub const OP_MKDIRAT: u8 = 37;
pub const OP_SOCKET: u8 = 45;

pub const SQE_IO_LINK: u8 = 4;
pub const SQE_IO_HARDLINK: u8 = 8;

pub const ECANCELED: i32 = libc::ECANCELED;

/// A descriptor number that can never be open: above any possible `nr_open`.
pub fn bad_fd(k: u8) -> i32 {
    i32::MAX - 16 - k as i32
}

// ---------------------------------------------------------------- hang guard

static ALARM_FIRED: AtomicBool = AtomicBool::new(false);

extern "C" fn on_alarm(_: i32) {
    ALARM_FIRED.store(true, Ordering::SeqCst);
}

pub fn install_alarm_handler() {
    unsafe {
        let mut sa: libc::sigaction = core::mem::zeroed();
        sa.sa_sigaction = on_alarm as *const () as usize;
        sa.sa_flags = 0; // no SA_RESTART: a blocked io_uring_enter returns EINTR
        libc::sigaction(libc::SIGALRM, &sa, core::ptr::null_mut());
    }
}

pub fn guard_arm(secs: u32) {
    ALARM_FIRED.store(false, Ordering::SeqCst);
    unsafe {
        libc::alarm(secs);
    }
}

pub fn guard_disarm() {
    unsafe {
        libc::alarm(0);
    }
}

pub fn guard_fired() -> bool {
    ALARM_FIRED.load(Ordering::SeqCst)
}

// ---------------------------------------------------------------- descriptors

pub fn fd_is_open(fd: i32) -> bool {
    unsafe { libc::fcntl(fd, libc::F_GETFD) >= 0 }
}

pub fn open_fd_count() -> usize {
    std::fs::read_dir("/proc/self/fd").map(|d| d.count()).unwrap_or(0)
}

pub fn close_quiet(fd: i32) {
    if fd >= 0 {
        unsafe {
            libc::close(fd);
        }
    }
}

/// What a descriptor refers to, in terms that are equal for twin worlds.
#[derive(Debug, Clone, PartialEq, Eq)]
pub struct FdInfo {
    pub kind: u32,
    pub perm: u32,
    pub size: i64,
    pub nlink: u64,
    /// /proc/self/fd link with the world prefix removed
    pub path: String,
    pub fl: i32,
    pub fdfl: i32,
    /// (domain, type, protocol) for sockets
    pub sock: Option<(i32, i32, i32)>,
}

pub fn fstat(fd: i32) -> Option<libc::stat> {
    unsafe {
        let mut st: libc::stat = core::mem::zeroed();
        if libc::fstat(fd, &mut st) == 0 {
            Some(st)
        } else {
            None
        }
    }
}

fn sockopt_i32(fd: i32, opt: i32) -> Option<i32> {
    unsafe {
        let mut v: i32 = 0;
        let mut l: libc::socklen_t = 4;
        if libc::getsockopt(fd, libc::SOL_SOCKET, opt, (&mut v as *mut i32).cast(), &mut l) == 0 {
            Some(v)
        } else {
            None
        }
    }
}

pub fn fd_info(fd: i32, world_prefix: &str) -> Option<FdInfo> {
    let st = fstat(fd)?;
    let link = std::fs::read_link(format!("/proc/self/fd/{fd}")).ok()?;
    let link = link.to_string_lossy().to_string();
    let kind = st.st_mode & libc::S_IFMT;
    let path = if kind == libc::S_IFSOCK {
        "socket".to_string() // "socket:[ino]" differs by inode number
    } else {
        let l = link.strip_prefix(world_prefix).map(|s| s.to_string()).unwrap_or(link);
        // an unnamed (O_TMPFILE) file shows as "<dir>/#<inode> (deleted)": the inode number differs between the worlds
        match l.rfind("/#") {
            Some(i) if l.ends_with(" (deleted)") && l[i + 2..l.len() - 10].bytes().all(|b| b.is_ascii_digit()) => format!("{}/#<unnamed>", &l[..i]),
            _ => l,
        }
    };
    let fl = unsafe { libc::fcntl(fd, libc::F_GETFL) };
    let fdfl = unsafe { libc::fcntl(fd, libc::F_GETFD) };
    let sock = if kind == libc::S_IFSOCK {
        Some((sockopt_i32(fd, libc::SO_DOMAIN).unwrap_or(-1), sockopt_i32(fd, libc::SO_TYPE).unwrap_or(-1), sockopt_i32(fd, libc::SO_PROTOCOL).unwrap_or(-1)))
    } else {
        None
    };
    Some(FdInfo {
        kind,
        perm: st.st_mode & 0o7777,
        size: if kind == libc::S_IFREG { st.st_size } else { 0 },
        nlink: if kind == libc::S_IFSOCK { 0 } else { st.st_nlink },
        path,
        fl,
        fdfl,
        sock,
    })
}

// ---------------------------------------------------------------- world directories

/// Remove everything inside `dir`; sub-directories named in `keep` (with the default mode) are
/// emptied instead of removed. Directory removal is by far the most expensive operation on the
/// file system under /tmp, so the lane skeleton is reused from case to case.
pub fn empty_dir(dir: &Path, keep: &[&str]) {
    use std::os::unix::fs::PermissionsExt;
    let Ok(rd) = std::fs::read_dir(dir) else { return };
    for ent in rd.flatten() {
        let p = ent.path();
        let Ok(md) = std::fs::symlink_metadata(&p) else { continue };
        if md.file_type().is_dir() {
            let name = ent.file_name();
            let kept = keep.iter().any(|k| name.as_os_str().as_bytes() == k.as_bytes()) && md.permissions().mode() & 0o7777 == 0o755;
            if kept {
                empty_dir(&p, &[]);
            } else {
                let _ = std::fs::remove_dir_all(&p);
            }
        } else {
            let _ = std::fs::remove_file(&p);
        }
    }
}

// ---------------------------------------------------------------- tree snapshot

#[derive(Debug, Clone, PartialEq, Eq)]
pub enum Node {
    Dir { perm: u32 },
    File { perm: u32, content: Vec<u8> },
    Link { target: Vec<u8> },
    Other { kind: u32 },
    Unreadable(String),
}

pub fn snapshot(root: &Path) -> BTreeMap<String, Node> {
    use std::os::unix::fs::{FileTypeExt, PermissionsExt};
    let mut out = BTreeMap::new();
    let mut stack = vec![root.to_path_buf()];
    while let Some(dir) = stack.pop() {
        let rd = match std::fs::read_dir(&dir) {
            Ok(r) => r,
            Err(e) => {
                out.insert(rel(root, &dir), Node::Unreadable(format!("{:?}", e.kind())));
                continue;
            }
        };
        for ent in rd.flatten() {
            let p = ent.path();
            let key = rel(root, &p);
            let md = match std::fs::symlink_metadata(&p) {
                Ok(m) => m,
                Err(e) => {
                    out.insert(key, Node::Unreadable(format!("{:?}", e.kind())));
                    continue;
                }
            };
            let ft = md.file_type();
            let perm = md.permissions().mode() & 0o7777;
            if ft.is_dir() {
                out.insert(key, Node::Dir { perm });
                stack.push(p);
            } else if ft.is_file() {
                match std::fs::read(&p) {
                    Ok(content) => {
                        out.insert(key, Node::File { perm, content });
                    }
                    Err(e) => {
                        out.insert(key, Node::Unreadable(format!("{:?}", e.kind())));
                    }
                }
            } else if ft.is_symlink() {
                let t = std::fs::read_link(&p).map(|t| t.as_os_str().as_bytes().to_vec()).unwrap_or_default();
                out.insert(key, Node::Link { target: t });
            } else {
                let kind = if ft.is_socket() {
                    libc::S_IFSOCK
                } else if ft.is_fifo() {
                    libc::S_IFIFO
                } else if ft.is_char_device() {
                    libc::S_IFCHR
                } else {
                    libc::S_IFBLK
                };
                out.insert(key, Node::Other { kind });
            }
        }
    }
    out
}

fn rel(root: &Path, p: &Path) -> String {
    vh::util::escape(p.strip_prefix(root).unwrap_or(p).as_os_str().as_bytes())
}

/// First difference between two snapshots, rendered.
pub fn tree_diff(a: &BTreeMap<String, Node>, b: &BTreeMap<String, Node>) -> Option<String> {
    for (k, va) in a {
        match b.get(k) {
            None => return Some(format!("{k}: ring world has {}, direct world has nothing", short(va))),
            Some(vb) if va != vb => return Some(format!("{k}: ring world {}, direct world {}", short(va), short(vb))),
            _ => {}
        }
    }
    for (k, vb) in b {
        if !a.contains_key(k) {
            return Some(format!("{k}: ring world has nothing, direct world has {}", short(vb)));
        }
    }
    None
}

fn short(n: &Node) -> String {
    match n {
        Node::Dir { perm } => format!("dir {perm:o}"),
        Node::File { perm, content } => {
            let shown = &content[..content.len().min(48)];
            format!("file {perm:o} len {} {:?}", content.len(), vh::util::escape(shown))
        }
        Node::Link { target } => format!("symlink -> {:?}", vh::util::escape(target)),
        Node::Other { kind } => format!("special {kind:o}"),
        Node::Unreadable(e) => format!("unreadable ({e})"),
    }
}

pub fn errname(v: i32) -> String {
    if v >= 0 {
        return "ok".to_string();
    }
    let n = match -v {
        libc::EPERM => "EPERM",
        libc::ENOENT => "ENOENT",
        libc::EINTR => "EINTR",
        libc::EIO => "EIO",
        libc::EBADF => "EBADF",
        libc::EAGAIN => "EAGAIN",
        libc::ENOMEM => "ENOMEM",
        libc::EACCES => "EACCES",
        libc::EFAULT => "EFAULT",
        libc::EBUSY => "EBUSY",
        libc::EEXIST => "EEXIST",
        libc::EXDEV => "EXDEV",
        libc::ENOTDIR => "ENOTDIR",
        libc::EISDIR => "EISDIR",
        libc::EINVAL => "EINVAL",
        libc::EMFILE => "EMFILE",
        libc::ESPIPE => "ESPIPE",
        libc::EPIPE => "EPIPE",
        libc::ENAMETOOLONG => "ENAMETOOLONG",
        libc::ENOTEMPTY => "ENOTEMPTY",
        libc::ELOOP => "ELOOP",
        libc::ENOTSOCK => "ENOTSOCK",
        libc::EPROTONOSUPPORT => "EPROTONOSUPPORT",
        libc::ESOCKTNOSUPPORT => "ESOCKTNOSUPPORT",
        libc::EOPNOTSUPP => "EOPNOTSUPP",
        libc::EAFNOSUPPORT => "EAFNOSUPPORT",
        libc::ENOTCONN => "ENOTCONN",
        libc::EISCONN => "EISCONN",
        libc::ECONNREFUSED => "ECONNREFUSED",
        libc::ETIME => "ETIME",
        libc::ECANCELED => "ECANCELED",
        libc::EDESTADDRREQ => "EDESTADDRREQ",
        libc::EPROTOTYPE => "EPROTOTYPE",
        _ => return format!("-{}", -v),
    };
    format!("-{n}")
}
