//! "fs" differential: file-system and timing operations through the ring (world A) against
//! the same operations done with direct libc calls (world B).
//!
//! Soundness structure
//! * A batch consists of chains; every chain works in its own *lane* (own directory, own
//!   descriptors, own registered buffer), so that chains — which the kernel may run in any
//!   order or concurrently — cannot influence each other. Inside a chain the entries are linked
//!   (`IOSQE_IO_LINK`) and therefore sequential.
//! * World B is executed first, entry by entry; that fixes every decision that depends on state
//!   (which descriptor a slot reference means, whether a chain is severed). World A is then
//!   submitted as one batch and each completion is compared with B's value.
//! * Whether a failing entry of some kind severs a chain is taken from the kernel probe.
use std::path::PathBuf;

use proptest::prelude::*;
use rusl::platform::{
    Fd, IoSliceMut, IoUringSQEFlags, IoUringSubmissionQueueEntry, Mode, OpenFlags, PollAddMultiFlags, PollEvents, RenameFlags, Statx, StatxFlags, StatxMask, TimeSpec,
};
use rusl::string::unix_str::UnixString;
use serde::{Deserialize, Serialize};
use vh::runner::{CaseReport, CaseResult, Ctx, Failure};

use super::ring::{self, LinkRule, RingCfg, Session, Sqe};
use super::sys::{self, errname};

pub const NL: usize = 4;
pub const FIXBUF: usize = 256;

#[derive(Debug, Clone, Serialize, Deserialize)]
pub struct FsCase {
    pub cfg: RingCfg,
    /// initial sizes of f0 and f1 in every lane
    pub sizes: [u16; 2],
    pub batches: Vec<Batch>,
}

#[derive(Debug, Clone, Serialize, Deserialize)]
pub struct Batch {
    pub chains: Vec<Chain>,
}

#[derive(Debug, Clone, Serialize, Deserialize)]
pub struct Chain {
    pub lane: u8,
    pub ops: Vec<OpG>,
    /// the entries are linked with IOSQE_IO_HARDLINK instead of IOSQE_IO_LINK
    #[serde(default)]
    pub hard: bool,
}

#[derive(Debug, Clone, Serialize, Deserialize)]
pub struct OpG {
    pub op: Op,
    /// IOSQE_ASYNC
    pub a: bool,
}

#[derive(Debug, Clone, Copy, Serialize, Deserialize, PartialEq, Eq)]
pub enum FdRef {
    /// index into the lane's descriptor slots as they were at batch start
    Slot(u8),
    Bad,
    /// the lane's directory descriptor
    Dir,
    /// registered file (IOSQE_FIXED_FILE): 0/1 the lane's own, 2 = index out of range
    Reg(u8),
}

#[derive(Debug, Clone, Copy, Serialize, Deserialize, PartialEq, Eq)]
pub enum DirRef {
    /// no dirfd, absolute path
    Abs,
    LaneDir,
    BadFd,
    /// descriptor of a regular file
    NotDir,
}

#[derive(Debug, Clone, Serialize, Deserialize)]
pub enum Op {
    Readv { fd: FdRef, lens: Vec<u16> },
    Writev { fd: FdRef, lens: Vec<u16>, fill: u8 },
    /// bad: 0 in range, 1 buffer index out of range, 2 address range outside the buffer
    ReadFixed { fd: FdRef, off: u8, len: u16, bad: u8 },
    WriteFixed { fd: FdRef, off: u8, len: u16, bad: u8 },
    /// o: bit0-1 access (0 RDONLY 1 WRONLY 2 RDWR), 2 CREAT, 3 EXCL, 4 TRUNC, 5 APPEND, 6 DIRECTORY,
    /// 7 NOFOLLOW, 8 PATH, 9 NONBLOCK, 10 CLOEXEC, 11 NOATIME, 12 SYNC
    Openat { dir: DirRef, name: u8, o: u16, mode: u16 },
    Close { fd: FdRef },
    /// fl: bit0 EMPTY_PATH, 1 NO_AUTOMOUNT, 2 FORCE_SYNC, 3 DONT_SYNC, 4 SYMLINK_FOLLOW (invalid for statx)
    Statx { dir: DirRef, name: u8, mask: u16, fl: u8 },
    Mkdirat { dir: DirRef, name: u8, mode: u16 },
    Unlinkat { dir: DirRef, name: u8, rmdir: bool },
    /// fl: bit0 NOREPLACE, bit1 EXCHANGE
    Renameat { odir: DirRef, oname: u8, ndir: DirRef, nname: u8, fl: u8 },
    /// count 0 = pure timeout
    Timeout { us: u16, abs: bool, count: u8 },
    PollAdd { fd: FdRef, ev: u16 },
}

impl Op {
    pub fn kind(&self) -> &'static str {
        match self {
            Op::Readv { .. } => "readv",
            Op::Writev { .. } => "writev",
            Op::ReadFixed { .. } => "read_fixed",
            Op::WriteFixed { .. } => "write_fixed",
            Op::Openat { .. } => "openat",
            Op::Close { .. } => "close",
            Op::Statx { .. } => "statx",
            Op::Mkdirat { .. } => "mkdirat",
            Op::Unlinkat { .. } => "unlinkat",
            Op::Renameat { .. } => "renameat",
            Op::Timeout { .. } => "timeout",
            Op::PollAdd { .. } => "poll_add",
        }
    }
    pub fn ctor(&self) -> &'static str {
        match self {
            Op::Readv { .. } => "new_readv",
            Op::Writev { .. } => "new_writev",
            Op::ReadFixed { .. } => "new_readv_fixed",
            Op::WriteFixed { .. } => "new_writev_fixed",
            Op::Openat { .. } => "new_openat",
            Op::Close { .. } => "new_close",
            Op::Statx { .. } => "new_statx",
            Op::Mkdirat { .. } => "new_mkdirat",
            Op::Unlinkat { .. } => "new_unlink_at",
            Op::Renameat { .. } => "new_rename_at",
            Op::Timeout { .. } => "new_timeout",
            Op::PollAdd { .. } => "new_poll_add",
        }
    }
}

pub const NNAMES: u8 = 17;
pub const NAME_EMPTY: u8 = 15;

pub fn name_bytes(i: u8) -> Vec<u8> {
    match i % NNAMES {
        0 => b"f0".to_vec(),
        1 => b"f1".to_vec(),
        2 => b"f2".to_vec(),
        3 => b"f3".to_vec(),
        4 => b"d0".to_vec(),
        5 => b"d1".to_vec(),
        6 => b"d0/g0".to_vec(),
        7 => b"d0/g1".to_vec(),
        8 => b"d1/g0".to_vec(),
        9 => b"nx/g".to_vec(),
        10 => b"f0/x".to_vec(),
        11 => b".".to_vec(),
        12 => vec![b'n'; 256],
        13 => b"s0".to_vec(),
        14 => b"s1".to_vec(),
        15 => Vec::new(),
        _ => b"d0/".to_vec(),
    }
}

fn pattern(len: usize, salt: u8) -> Vec<u8> {
    (0..len).map(|i| (i as u8).wrapping_mul(7).wrapping_add(salt)).collect()
}

// ---------------------------------------------------------------- worlds

pub struct Lane {
    pub dir: String,
    pub dirfd: i32,
    pub reg: [i32; 2],
    pub slots: Vec<Option<i32>>,
}

pub struct World {
    pub prefix: String,
    pub lanes: Vec<Lane>,
}

impl World {
    pub fn create(prefix: &str, sizes: [u16; 2]) -> World {
        let mut lanes = Vec::new();
        for k in 0..NL {
            let dir = format!("{prefix}/l{k}");
            std::fs::create_dir_all(&dir).unwrap();
            sys::empty_dir(std::path::Path::new(&dir), &["d0"]);
            if !std::path::Path::new(&format!("{dir}/d0")).is_dir() {
                std::fs::create_dir(format!("{dir}/d0")).unwrap();
            }
            std::fs::write(format!("{dir}/f0"), pattern(sizes[0] as usize, 1)).unwrap();
            std::fs::write(format!("{dir}/f1"), pattern(sizes[1] as usize, 2)).unwrap();
            std::fs::write(format!("{dir}/d0/g0"), pattern(10, 3)).unwrap();
            std::fs::write(format!("{dir}/r0"), pattern(100, 4)).unwrap();
            std::fs::write(format!("{dir}/r1"), b"").unwrap();
            std::os::unix::fs::symlink("f0", format!("{dir}/s0")).unwrap();
            let o = |p: &str, fl: i32| -> i32 {
                let c = sys::cstr(p.as_bytes());
                let fd = unsafe { libc::open(c.as_ptr(), fl) };
                assert!(fd >= 0, "harness: open {p} failed");
                fd
            };
            let dirfd = o(&dir, libc::O_RDONLY | libc::O_DIRECTORY);
            let reg = [o(&format!("{dir}/r0"), libc::O_RDWR), o(&format!("{dir}/r1"), libc::O_RDWR)];
            let slots = vec![
                Some(o(&format!("{dir}/f0"), libc::O_RDWR)),
                Some(o(&format!("{dir}/f1"), libc::O_RDONLY)),
                Some(o(&format!("{dir}/f1"), libc::O_WRONLY | libc::O_APPEND)),
            ];
            lanes.push(Lane { dir, dirfd, reg, slots });
        }
        World { prefix: prefix.to_string(), lanes }
    }

    pub fn close_all(&mut self) {
        for l in self.lanes.iter_mut() {
            sys::close_quiet(l.dirfd);
            l.dirfd = -1;
            for r in l.reg.iter_mut() {
                sys::close_quiet(*r);
                *r = -1;
            }
            for s in l.slots.iter_mut() {
                if let Some(fd) = s.take() {
                    sys::close_quiet(fd);
                }
            }
        }
    }
}

pub fn case_root(ctx: &Ctx) -> PathBuf {
    PathBuf::from(format!("/tmp/verif-c18-{}-{}", std::process::id(), ctx.worker))
}

pub fn remove_case_root(ctx: &Ctx) {
    let _ = std::fs::remove_dir_all(case_root(ctx));
}

// ---------------------------------------------------------------- resolved entries

#[derive(Debug, Clone, Copy, PartialEq, Eq)]
pub enum FdSel {
    Slot(usize),
    Bad(u8),
    Dir,
    /// registered index
    Reg(u32),
    RegOob,
}

#[derive(Debug, Clone, PartialEq, Eq)]
pub enum Expect {
    Exact(i32),
    OneOf(Vec<i32>),
    /// descriptor-valued: B's descriptor (>= 0)
    NewFd(i32),
    Cancelled,
}

/// Memory referenced by one entry; lives until the completion has been reaped.
#[derive(Default)]
pub struct Mem {
    pub bufs: Vec<Vec<u8>>,
    pub iov: Vec<libc::iovec>,
    pub paths: Vec<UnixString>,
    pub cpaths: Vec<std::ffi::CString>,
    pub stx: Option<Box<libc::statx>>,
    pub ts: Option<Box<TimeSpec>>,
}

pub struct Entry {
    pub lane: usize,
    pub pos: usize,
    pub last: bool,
    pub hard: bool,
    pub op: Op,
    pub a: bool,
    pub fdsel: Option<FdSel>,
    pub exp: Expect,
    pub mem_a: Mem,
    pub mem_b: Mem,
    pub ud: u64,
}

#[derive(Clone, Copy)]
struct LaneView {
    dirfd: i32,
    reg0: i32,
}

fn dir_of(lane: &LaneView, d: DirRef) -> i32 {
    match d {
        DirRef::Abs => libc::AT_FDCWD,
        DirRef::LaneDir => lane.dirfd,
        DirRef::BadFd => sys::bad_fd(1),
        DirRef::NotDir => lane.reg0,
    }
}

fn path_of(lane: &Lane, d: DirRef, name: u8) -> Vec<u8> {
    let n = name_bytes(name);
    match d {
        DirRef::Abs => {
            let mut p = lane.dir.as_bytes().to_vec();
            p.push(b'/');
            p.extend_from_slice(&n);
            p
        }
        _ => n,
    }
}

fn oflags_libc(o: u16) -> i32 {
    let mut f = match o & 3 {
        1 => libc::O_WRONLY,
        2 | 3 => libc::O_RDWR,
        _ => libc::O_RDONLY,
    };
    let tab = [
        (2, libc::O_CREAT),
        (3, libc::O_EXCL),
        (4, libc::O_TRUNC),
        (5, libc::O_APPEND),
        (6, libc::O_DIRECTORY),
        (7, libc::O_NOFOLLOW),
        (8, libc::O_PATH),
        (9, libc::O_NONBLOCK),
        (10, libc::O_CLOEXEC),
        (11, libc::O_NOATIME),
        (12, libc::O_SYNC),
        (13, libc::O_TMPFILE),
    ];
    for (b, v) in tab {
        if o & (1 << b) != 0 {
            f |= v;
        }
    }
    f
}

fn oflags_rusl(o: u16) -> OpenFlags {
    let mut f = match o & 3 {
        1 => OpenFlags::O_WRONLY,
        2 | 3 => OpenFlags::O_RDWR,
        _ => OpenFlags::O_RDONLY,
    };
    let tab = [
        (2, OpenFlags::O_CREAT),
        (3, OpenFlags::O_EXCL),
        (4, OpenFlags::O_TRUNC),
        (5, OpenFlags::O_APPEND),
        (6, OpenFlags::O_DIRECTORY),
        (7, OpenFlags::O_NOFOLLOW),
        (8, OpenFlags::O_PATH),
        (9, OpenFlags::O_NONBLOCK),
        (10, OpenFlags::O_CLOEXEC),
        (11, OpenFlags::O_NOATIME),
        (12, OpenFlags::O_SYNC),
        (13, OpenFlags::O_TMPFILE),
    ];
    for (b, v) in tab {
        if o & (1 << b) != 0 {
            f |= v;
        }
    }
    f
}

fn statx_flags_libc(fl: u8) -> i32 {
    let tab = [(0, libc::AT_EMPTY_PATH), (1, libc::AT_NO_AUTOMOUNT), (2, libc::AT_STATX_FORCE_SYNC), (3, libc::AT_STATX_DONT_SYNC), (4, libc::AT_SYMLINK_FOLLOW)];
    let mut f = 0;
    for (b, v) in tab {
        if fl & (1 << b) != 0 {
            f |= v;
        }
    }
    f
}

fn statx_flags_rusl(fl: u8) -> StatxFlags {
    let tab = [(0, StatxFlags::AT_EMPTY_PATH), (1, StatxFlags::AT_NO_AUTOMOUNT), (2, StatxFlags::AT_STATX_FORCE_SYNC), (3, StatxFlags::AT_STATX_DONT_SYNC), (4, StatxFlags::AT_SYMLINK_FOLLOW)];
    let mut f = StatxFlags::empty();
    for (b, v) in tab {
        if fl & (1 << b) != 0 {
            f |= v;
        }
    }
    f
}

const STATX_BITS: [(u16, u32); 14] = [
    (0, libc::STATX_TYPE),
    (1, libc::STATX_MODE),
    (2, libc::STATX_NLINK),
    (3, libc::STATX_UID),
    (4, libc::STATX_GID),
    (5, libc::STATX_ATIME),
    (6, libc::STATX_MTIME),
    (7, libc::STATX_CTIME),
    (8, libc::STATX_INO),
    (9, libc::STATX_SIZE),
    (10, libc::STATX_BLOCKS),
    (11, libc::STATX_BTIME),
    (12, libc::STATX_MNT_ID),
    (13, 0x2000), // STATX_DIOALIGN
];

fn statx_mask_libc(m: u16) -> u32 {
    STATX_BITS.iter().filter(|(b, _)| m & (1 << b) != 0).fold(0, |a, (_, v)| a | v)
}

fn statx_mask_rusl(m: u16) -> StatxMask {
    let tab = [
        StatxMask::STATX_TYPE,
        StatxMask::STATX_MODE,
        StatxMask::STATX_NLINK,
        StatxMask::STATX_UID,
        StatxMask::STATX_GID,
        StatxMask::STATX_ATIME,
        StatxMask::STATX_MTIME,
        StatxMask::STATX_CTIME,
        StatxMask::STATX_INO,
        StatxMask::STATX_SIZE,
        StatxMask::STATX_BLOCKS,
        StatxMask::STATX_BTIME,
        StatxMask::STATX_MNT_ID,
        StatxMask::STATX_DIOALIGN,
    ];
    let mut f = StatxMask::empty();
    for (b, v) in tab.iter().enumerate() {
        if m & (1 << b) != 0 {
            f |= *v;
        }
    }
    f
}

const POLL_BITS: [(u16, i16); 7] = [(0, libc::POLLIN), (1, libc::POLLPRI), (2, libc::POLLOUT), (3, libc::POLLRDNORM), (4, libc::POLLWRNORM), (5, libc::POLLRDBAND), (6, libc::POLLRDHUP)];

pub fn poll_libc(ev: u16) -> i16 {
    POLL_BITS.iter().filter(|(b, _)| ev & (1 << b) != 0).fold(0, |a, (_, v)| a | v)
}

pub fn poll_rusl(ev: u16) -> PollEvents {
    let tab = [PollEvents::POLLIN, PollEvents::POLLPRI, PollEvents::POLLOUT, PollEvents::POLLRDNORM, PollEvents::POLLWRNORM, PollEvents::POLLRDBAND, PollEvents::POLLRDHUP];
    let mut f = PollEvents::empty();
    for (b, v) in tab.iter().enumerate() {
        if ev & (1 << b) != 0 {
            f |= *v;
        }
    }
    f
}

pub fn rfd(v: i32) -> Fd {
    Fd::try_new(v).expect("harness: negative descriptor")
}

fn dir_opt(v: i32) -> Option<Fd> {
    if v == libc::AT_FDCWD {
        None
    } else {
        Some(rfd(v))
    }
}

fn fill_rw_mem(mem: &mut Mem, lens: &[u16], content: Option<u8>) {
    for (i, &l) in lens.iter().enumerate() {
        let b = match content {
            Some(f) => pattern(l as usize, f.wrapping_add(i as u8 * 31)),
            None => vec![0xAA; l as usize],
        };
        mem.bufs.push(b);
    }
    for b in mem.bufs.iter_mut() {
        mem.iov.push(libc::iovec { iov_base: b.as_mut_ptr().cast(), iov_len: b.len() });
    }
}

fn now_mono() -> (i64, i64) {
    unsafe {
        let mut ts: libc::timespec = core::mem::zeroed();
        libc::clock_gettime(libc::CLOCK_MONOTONIC, &mut ts);
        (ts.tv_sec, ts.tv_nsec)
    }
}

// ---------------------------------------------------------------- the engine

pub struct Engine {
    pub s: Session,
    pub a: World,
    pub b: World,
    /// registered buffers of world A (NL * FIXBUF bytes) and B's plain copies
    pub fix_a: Vec<u8>,
    pub fix_b: Vec<Vec<u8>>,
    pub registered: bool,
    pub ud_next: u64,
    pub fds_at_start: usize,
    pub stats: Stats,
}

#[derive(Default)]
pub struct Stats {
    pub kinds: std::collections::BTreeSet<&'static str>,
    pub multi_kind_batch: bool,
    pub link_chain: bool,
    pub cancelled: bool,
    pub hard_chain_survived_failure: bool,
    pub continued_after_failure: bool,
    pub failing: bool,
    pub short_rw: bool,
    pub newfd: bool,
    pub tmpfile: bool,
    pub multi_lane: bool,
    pub fixed_file: bool,
    pub fixed_buf: bool,
    pub async_flag: bool,
    pub full_ring_batch: bool,
}

pub enum Started {
    Ok(Box<Engine>),
    Inconclusive(String),
    Fail(Failure),
}

impl Engine {
    pub fn start(ctx: &Ctx, cfg: RingCfg, sizes: [u16; 2]) -> Started {
        let root = case_root(ctx);
        std::fs::create_dir_all(&root).unwrap();
        let fds_at_start = sys::open_fd_count();
        let s = match Session::new(cfg) {
            Ok(s) => s,
            Err(e) => {
                if ring::probe().accepts(&cfg) {
                    return Started::Fail(Failure::new("setup_io_uring|error|accepted flag set", format!("setup_io_uring({}, {}) failed: {e}", cfg.entries, cfg.flag_name())));
                }
                return Started::Inconclusive(format!("kernel refuses {}: {e}", cfg.flag_name()));
            }
        };
        let a = World::create(&format!("{}/A", root.display()), sizes);
        let b = World::create(&format!("{}/B", root.display()), sizes);
        let mut e = Engine {
            s,
            a,
            b,
            fix_a: vec![0u8; NL * FIXBUF],
            fix_b: Vec::new(),
            registered: false,
            ud_next: 0x1_0000,
            fds_at_start,
            stats: Stats::default(),
        };
        for k in 0..NL {
            let p = pattern(FIXBUF, 0x40 + k as u8);
            e.fix_a[k * FIXBUF..(k + 1) * FIXBUF].copy_from_slice(&p);
            e.fix_b.push(p);
        }
        // register buffers and files once per ring
        let fd = e.s.fd();
        let base = e.fix_a.as_mut_ptr();
        let slices: Vec<IoSliceMut> = (0..NL).map(|k| IoSliceMut::new(unsafe { core::slice::from_raw_parts_mut(base.add(k * FIXBUF), FIXBUF) })).collect();
        let r = vh::runner::catch(|| unsafe { rusl::io_uring::io_uring_register_buffers(fd, &slices) });
        match r {
            Ok(Ok(())) => {}
            Ok(Err(er)) => {
                let code = er.code.map(|c| c.raw()).unwrap_or(0);
                e.cleanup();
                if code == libc::ENOMEM {
                    return Started::Inconclusive(format!("register_buffers: {er}"));
                }
                return Started::Fail(Failure::new(format!("io_uring_register_buffers|error|{}", errname(-code)), format!("registering {NL} buffers of {FIXBUF} bytes failed: {er}")));
            }
            Err((loc, msg)) => {
                e.cleanup();
                return Started::Fail(Failure::new(format!("io_uring_register_buffers|panic|{loc}"), msg));
            }
        }
        let files: Vec<Fd> = e.a.lanes.iter().flat_map(|l| l.reg.iter().map(|&f| rfd(f))).collect();
        let r = vh::runner::catch(|| rusl::io_uring::io_uring_register_files(fd, &files));
        match r {
            Ok(Ok(())) => {}
            Ok(Err(er)) => {
                let code = er.code.map(|c| c.raw()).unwrap_or(0);
                e.cleanup();
                return Started::Fail(Failure::new(format!("io_uring_register_files|error|{}", errname(-code)), format!("registering {} files failed: {er}", files.len())));
            }
            Err((loc, msg)) => {
                e.cleanup();
                return Started::Fail(Failure::new(format!("io_uring_register_files|panic|{loc}"), msg));
            }
        }
        e.registered = true;
        Started::Ok(Box::new(e))
    }

    /// Descriptors and ring are released here; the world directories are emptied by the next
    /// case and removed at the end of the run (`remove_case_root`).
    pub fn cleanup(&mut self) {
        self.a.close_all();
        self.b.close_all();
        self.s.finish();
    }

    /// Normalise a generated batch: one chain per lane, total within the ring, arguments that
    /// fail before issue (and so take down a whole chain in a kernel-version dependent way)
    /// only in single-entry chains, kinds with unknown link rule only at a chain end.
    pub fn normalise(&self, batch: &Batch) -> Vec<(usize, Vec<OpG>, bool)> {
        let cap = self.s.sq_entries as usize;
        let pr = ring::probe();
        let mut used = [false; NL];
        let mut out: Vec<(usize, Vec<OpG>, bool)> = Vec::new();
        let mut total = 0usize;
        for ch in &batch.chains {
            if total >= cap {
                break;
            }
            let mut lane = ch.lane as usize % NL;
            let mut tries = 0;
            while used[lane] && tries < NL {
                lane = (lane + 1) % NL;
                tries += 1;
            }
            if used[lane] {
                break;
            }
            let mut ops: Vec<OpG> = Vec::new();
            for g in &ch.ops {
                if total + ops.len() >= cap {
                    break;
                }
                if pr.unsupported_ops.iter().any(|k| k == g.op.kind()) {
                    continue;
                }
                ops.push(g.clone());
            }
            if ops.is_empty() {
                continue;
            }
            let n = ops.len();
            let mut cut = n;
            for (i, g) in ops.iter_mut().enumerate() {
                let last = i + 1 == n;
                sanitise_always(&mut g.op);
                if n > 1 {
                    sanitise_for_chain(&mut g.op);
                }
                if !last {
                    if let Op::Timeout { count, .. } = &mut g.op {
                        *count = 0;
                    }
                    if rule_for(g.op.kind(), ch.hard) == LinkRule::Unknown {
                        cut = cut.min(i + 1);
                    }
                }
            }
            ops.truncate(cut);
            used[lane] = true;
            total += ops.len();
            out.push((lane, ops, ch.hard));
        }
        out
    }

    fn resolve_fd(&self, lane: usize, r: FdRef, nslots_start: usize) -> FdSel {
        match r {
            FdRef::Bad => FdSel::Bad(0),
            FdRef::Dir => FdSel::Dir,
            FdRef::Reg(j) if j < 2 => FdSel::Reg((lane * 2 + j as usize) as u32),
            FdRef::Reg(_) => FdSel::RegOob,
            FdRef::Slot(i) => {
                if nslots_start == 0 {
                    return FdSel::Bad(2);
                }
                let idx = i as usize % nslots_start;
                // the B world's table is current (closes earlier in this chain are visible)
                if self.b.lanes[lane].slots[idx].is_some() {
                    FdSel::Slot(idx)
                } else {
                    FdSel::Bad(3)
                }
            }
        }
    }

    fn fd_num(w: &World, lane: usize, sel: FdSel) -> i32 {
        match sel {
            FdSel::Slot(i) => w.lanes[lane].slots[i].expect("resolved slot is open"),
            FdSel::Bad(k) => sys::bad_fd(k),
            FdSel::Dir => w.lanes[lane].dirfd,
            FdSel::Reg(idx) => w.lanes[idx as usize / 2].reg[idx as usize % 2],
            FdSel::RegOob => sys::bad_fd(4),
        }
    }

    /// Execute one entry directly in world B. Returns the expectation and whether it counts as
    /// a failure for link purposes.
    fn exec_b(&mut self, lane: usize, op: &Op, sel: Option<FdSel>, mem: &mut Mem, new_b: &mut Vec<(usize, i32)>) -> (Expect, Option<&'static str>) {
        let lv = LaneView { dirfd: self.b.lanes[lane].dirfd, reg0: self.b.lanes[lane].reg[0] };
        let l = &lv;
        let fail_kind = |r: i32, kind: &'static str| if r < 0 { Some(kind) } else { None };
        unsafe {
            match op {
                Op::Readv { lens, .. } | Op::Writev { lens, .. } => {
                    let is_read = matches!(op, Op::Readv { .. });
                    let sel = sel.unwrap();
                    if sel == FdSel::RegOob {
                        return (Expect::Exact(-libc::EBADF), Some(op.kind()));
                    }
                    let fd = Self::fd_num(&self.b, lane, sel);
                    let r = if is_read {
                        sys::ret(libc::preadv(fd, mem.iov.as_ptr(), mem.iov.len() as i32, 0) as i64)
                    } else {
                        sys::ret(libc::pwritev(fd, mem.iov.as_ptr(), mem.iov.len() as i32, 0) as i64)
                    };
                    let want: i32 = lens.iter().map(|&x| x as i32).sum();
                    let fk = if r < 0 {
                        Some(op.kind())
                    } else if r != want {
                        Some("short-rw")
                    } else {
                        None
                    };
                    (Expect::Exact(r), fk)
                }
                Op::ReadFixed { off, len, bad, .. } | Op::WriteFixed { off, len, bad, .. } => {
                    let is_read = matches!(op, Op::ReadFixed { .. });
                    let sel = sel.unwrap();
                    if sel == FdSel::RegOob {
                        return (Expect::Exact(-libc::EBADF), Some(op.kind()));
                    }
                    if *bad != 0 {
                        // io_uring_enter(2), EFAULT: "the range described by addr and len does not fit
                        // within the buffer registered at buf_index"; a descriptor error may win
                        let fd = Self::fd_num(&self.b, lane, sel);
                        if !sys::fd_is_open(fd) {
                            return (Expect::OneOf(vec![-libc::EBADF, -libc::EFAULT]), Some(op.kind()));
                        }
                        return (Expect::OneOf(vec![-libc::EFAULT, -libc::EBADF]), Some(op.kind()));
                    }
                    let fd = Self::fd_num(&self.b, lane, sel);
                    let (o, n) = fix_range(*off, *len);
                    let buf = self.fix_b[lane].as_mut_ptr().add(o);
                    let r = if is_read { sys::ret(libc::pread(fd, buf.cast(), n, 0) as i64) } else { sys::ret(libc::pwrite(fd, buf.cast(), n, 0) as i64) };
                    let fk = if r < 0 {
                        Some(op.kind())
                    } else if r != n as i32 {
                        Some("short-rw")
                    } else {
                        None
                    };
                    (Expect::Exact(r), fk)
                }
                Op::Openat { dir, o, mode, .. } => {
                    let r = sys::ret(libc::openat(dir_of(l, *dir), mem.cpaths[0].as_ptr(), oflags_libc(*o), *mode as libc::c_uint) as i64);
                    if r >= 0 {
                        new_b.push((lane, r));
                        (Expect::NewFd(r), None)
                    } else {
                        (Expect::Exact(r), Some("openat"))
                    }
                }
                Op::Close { .. } => {
                    let sel = sel.unwrap();
                    let fd = Self::fd_num(&self.b, lane, sel);
                    let r = sys::ret(libc::close(fd) as i64);
                    if r == 0 {
                        if let FdSel::Slot(i) = sel {
                            self.b.lanes[lane].slots[i] = None;
                        }
                    }
                    (Expect::Exact(r), fail_kind(r, "close"))
                }
                Op::Statx { dir, mask, fl, .. } => {
                    let stx = mem.stx.as_mut().unwrap();
                    let r = sys::ret(libc::syscall(libc::SYS_statx, dir_of(l, *dir), mem.cpaths[0].as_ptr(), statx_flags_libc(*fl), statx_mask_libc(*mask), &mut **stx as *mut libc::statx) as i64);
                    (Expect::Exact(r), fail_kind(r, "statx"))
                }
                Op::Mkdirat { dir, mode, .. } => {
                    let r = sys::ret(libc::mkdirat(dir_of(l, *dir), mem.cpaths[0].as_ptr(), *mode as libc::mode_t) as i64);
                    (Expect::Exact(r), fail_kind(r, "mkdirat"))
                }
                Op::Unlinkat { dir, rmdir, .. } => {
                    let r = sys::ret(libc::unlinkat(dir_of(l, *dir), mem.cpaths[0].as_ptr(), if *rmdir { libc::AT_REMOVEDIR } else { 0 }) as i64);
                    (Expect::Exact(r), fail_kind(r, "unlinkat"))
                }
                Op::Renameat { odir, ndir, fl, .. } => {
                    let mut f = 0u32;
                    if fl & 1 != 0 {
                        f |= libc::RENAME_NOREPLACE;
                    }
                    if fl & 2 != 0 {
                        f |= libc::RENAME_EXCHANGE;
                    }
                    let r = sys::ret(libc::syscall(libc::SYS_renameat2, dir_of(l, *odir), mem.cpaths[0].as_ptr(), dir_of(l, *ndir), mem.cpaths[1].as_ptr(), f) as i64);
                    (Expect::Exact(r), fail_kind(r, "renameat"))
                }
                Op::Timeout { count, .. } => {
                    // "will produce a cqe with result -ETIME on elapse or 0 if await_completions is
                    // specified and that number of cqes have completed"
                    if *count == 0 {
                        (Expect::Exact(-libc::ETIME), Some("timeout"))
                    } else {
                        (Expect::OneOf(vec![0, -libc::ETIME]), Some("timeout"))
                    }
                }
                Op::PollAdd { ev, .. } => {
                    let sel = sel.unwrap();
                    if sel == FdSel::RegOob {
                        return (Expect::Exact(-libc::EBADF), Some("poll_add"));
                    }
                    let fd = Self::fd_num(&self.b, lane, sel);
                    let mut p = libc::pollfd { fd, events: poll_libc(*ev), revents: 0 };
                    let r = libc::poll(&mut p, 1, 0);
                    if r == 1 && p.revents & libc::POLLNVAL != 0 {
                        (Expect::Exact(-libc::EBADF), Some("poll_add"))
                    } else if r == 1 {
                        (Expect::Exact(p.revents as i32), None)
                    } else {
                        // not ready: cannot be submitted without blocking (excluded by sanitise_poll);
                        // the caller substitutes a descriptor that is never open
                        (Expect::Exact(i32::MIN), None)
                    }
                }
            }
        }
    }

    fn build_mem(&self, w: &World, lane: usize, op: &Op, for_a: bool) -> Mem {
        let mut m = Mem::default();
        let l = &w.lanes[lane];
        let add_path = |m: &mut Mem, d: DirRef, name: u8| {
            let p = path_of(l, d, name);
            if for_a {
                m.paths.push(UnixString::try_from_bytes(&p).expect("generated path has no interior NUL"));
            } else {
                m.cpaths.push(sys::cstr(&p));
            }
        };
        match op {
            Op::Readv { lens, .. } => fill_rw_mem(&mut m, lens, None),
            Op::Writev { lens, fill, .. } => fill_rw_mem(&mut m, lens, Some(*fill)),
            Op::Openat { dir, name, .. } | Op::Statx { dir, name, .. } | Op::Mkdirat { dir, name, .. } | Op::Unlinkat { dir, name, .. } => {
                add_path(&mut m, *dir, *name);
                if matches!(op, Op::Statx { .. }) {
                    m.stx = Some(Box::new(unsafe { core::mem::zeroed() }));
                }
            }
            Op::Renameat { odir, oname, ndir, nname, .. } => {
                add_path(&mut m, *odir, *oname);
                add_path(&mut m, *ndir, *nname);
            }
            Op::Timeout { us, abs, .. } => {
                if for_a {
                    let ns = *us as i64 * 1000;
                    let ts = if *abs {
                        let (s, n) = now_mono();
                        let tot = n + ns;
                        TimeSpec::new(s + tot / 1_000_000_000, tot % 1_000_000_000)
                    } else {
                        TimeSpec::new(0, ns)
                    };
                    m.ts = Some(Box::new(ts));
                }
            }
            _ => {}
        }
        m
    }

    fn build_sqe(&mut self, e: &Entry) -> IoUringSubmissionQueueEntry {
        let lane = e.lane;
        let mut fl = IoUringSQEFlags::empty();
        if !e.last {
            fl |= if e.hard { IoUringSQEFlags::IOSQE_IO_HARDLINK } else { IoUringSQEFlags::IOSQE_IO_LINK };
        }
        if e.a {
            fl |= IoUringSQEFlags::IOSQE_ASYNC;
        }
        let fd_of = |sel: FdSel, fl: &mut IoUringSQEFlags| -> Fd {
            match sel {
                FdSel::Reg(idx) => {
                    *fl |= IoUringSQEFlags::IOSQE_FIXED_FILE;
                    rfd(idx as i32)
                }
                FdSel::RegOob => {
                    *fl |= IoUringSQEFlags::IOSQE_FIXED_FILE;
                    rfd(1000)
                }
                s => rfd(Self::fd_num(&self.a, lane, s)),
            }
        };
        let lv = LaneView { dirfd: self.a.lanes[lane].dirfd, reg0: self.a.lanes[lane].reg[0] };
        let l = &lv;
        let m = &e.mem_a;
        let ud = e.ud;
        unsafe {
            match &e.op {
                Op::Readv { .. } => {
                    let fd = fd_of(e.fdsel.unwrap(), &mut fl);
                    IoUringSubmissionQueueEntry::new_readv(fd, m.iov.as_ptr() as usize, m.iov.len() as u32, ud, fl)
                }
                Op::Writev { .. } => {
                    let fd = fd_of(e.fdsel.unwrap(), &mut fl);
                    IoUringSubmissionQueueEntry::new_writev(fd, m.iov.as_ptr() as usize, m.iov.len() as u32, ud, fl)
                }
                Op::ReadFixed { off, len, bad, .. } | Op::WriteFixed { off, len, bad, .. } => {
                    let fd = fd_of(e.fdsel.unwrap(), &mut fl);
                    let (o, n) = fix_range(*off, *len);
                    let base = self.fix_a.as_ptr() as u64 + (lane * FIXBUF) as u64;
                    let (idx, addr, n) = match bad {
                        0 => (lane as u16, base + o as u64, n as u32),
                        1 => (NL as u16 + 3, base + o as u64, n as u32),
                        _ => (lane as u16, base + 200, 100u32),
                    };
                    if matches!(e.op, Op::ReadFixed { .. }) {
                        IoUringSubmissionQueueEntry::new_readv_fixed(fd, idx, addr, n, ud, fl)
                    } else {
                        IoUringSubmissionQueueEntry::new_writev_fixed(fd, idx, addr, n, ud, fl)
                    }
                }
                Op::Openat { dir, o, mode, .. } => IoUringSubmissionQueueEntry::new_openat(dir_opt(dir_of(l, *dir)), &m.paths[0], oflags_rusl(*o), Mode::from(*mode as u32), ud, fl),
                Op::Close { .. } => {
                    let fd = rfd(Self::fd_num(&self.a, lane, e.fdsel.unwrap()));
                    IoUringSubmissionQueueEntry::new_close(fd, ud, fl)
                }
                Op::Statx { dir, mask, fl: sfl, .. } => {
                    let p = m.stx.as_ref().map(|b| &**b as *const libc::statx as *mut Statx).unwrap();
                    IoUringSubmissionQueueEntry::new_statx(dir_opt(dir_of(l, *dir)), &m.paths[0], statx_flags_rusl(*sfl), statx_mask_rusl(*mask), p, ud, fl)
                }
                Op::Mkdirat { dir, mode, .. } => IoUringSubmissionQueueEntry::new_mkdirat(dir_opt(dir_of(l, *dir)), &m.paths[0], Mode::from(*mode as u32), ud, fl),
                Op::Unlinkat { dir, rmdir, .. } => IoUringSubmissionQueueEntry::new_unlink_at(dir_opt(dir_of(l, *dir)), &m.paths[0], *rmdir, ud, fl),
                Op::Renameat { odir, ndir, fl: rf, .. } => {
                    let mut f = RenameFlags::empty();
                    if rf & 1 != 0 {
                        f |= RenameFlags::RENAME_NOREPLACE;
                    }
                    if rf & 2 != 0 {
                        f |= RenameFlags::RENAME_EXCHANGE;
                    }
                    IoUringSubmissionQueueEntry::new_rename_at(dir_opt(dir_of(l, *odir)), dir_opt(dir_of(l, *ndir)), &m.paths[0], &m.paths[1], f, ud, fl)
                }
                Op::Timeout { abs, count, .. } => IoUringSubmissionQueueEntry::new_timeout(m.ts.as_ref().unwrap(), !*abs, if *count == 0 { None } else { Some(*count as u64) }, ud, fl),
                Op::PollAdd { ev, .. } => {
                    let fd = fd_of(e.fdsel.unwrap(), &mut fl);
                    IoUringSubmissionQueueEntry::new_poll_add(fd, poll_rusl(*ev), PollAddMultiFlags::empty(), ud, fl)
                }
            }
        }
    }

    /// One batch: B first, then A, then compare.
    pub fn run_batch(&mut self, bi: usize, batch: &Batch) -> Result<(), Failure> {
        let chains = self.normalise(batch);
        if chains.is_empty() {
            return Ok(());
        }
        self.housekeeping();
        let nslots: Vec<usize> = self.b.lanes.iter().map(|l| l.slots.len()).collect();
        let mut entries: Vec<Entry> = Vec::new();
        let mut new_b: Vec<(usize, i32)> = Vec::new();
        // ---- world B, sequentially per chain
        for (lane, ops, hard) in &chains {
            let mut severed = false;
            let n = ops.len();
            for (pos, g) in ops.iter().enumerate() {
                let mut op = g.op.clone();
                let fdref = match &op {
                    Op::Readv { fd, .. } | Op::Writev { fd, .. } | Op::ReadFixed { fd, .. } | Op::WriteFixed { fd, .. } | Op::Close { fd } | Op::PollAdd { fd, .. } => Some(*fd),
                    _ => None,
                };
                let mut fdsel = fdref.map(|r| self.resolve_fd(*lane, r, nslots[*lane]));
                if let Op::Close { .. } = op {
                    // only slots may be closed; the lane's long-lived descriptors are not for closing
                    if !matches!(fdsel, Some(FdSel::Slot(_))) {
                        fdsel = Some(FdSel::Bad(5));
                    }
                }
                if !self.registered {
                    if let Some(FdSel::Reg(_)) | Some(FdSel::RegOob) = fdsel {
                        fdsel = Some(FdSel::Bad(6));
                    }
                }
                let ud = self.ud_next;
                self.ud_next += 1;
                // a zero-length transfer on a directory: read(2)/pread(2) ask the directory (EISDIR), the
                // iterator-based paths return 0 without asking — kernel shortcut order, not the wrapper's
                if let Some(sel) = fdsel {
                    if !matches!(sel, FdSel::RegOob) {
                        let fd = Self::fd_num(&self.b, *lane, sel);
                        let is_dir = sys::fstat(fd).map(|st| st.st_mode & libc::S_IFMT == libc::S_IFDIR).unwrap_or(false);
                        if is_dir {
                            match &mut op {
                                Op::ReadFixed { len, .. } | Op::WriteFixed { len, .. } if *len == 0 => *len = 1,
                                Op::Readv { lens, .. } | Op::Writev { lens, .. } if lens.iter().all(|l| *l == 0) => lens[0] = 1,
                                _ => {}
                            }
                        }
                    }
                }
                let mut mem_b = self.build_mem(&self.b, *lane, &op, false);
                let exp = if severed {
                    Expect::Cancelled
                } else {
                    if let Op::PollAdd { ev, .. } = &mut op {
                        sanitise_poll(ev);
                    }
                    let (mut exp, mut fk) = self.exec_b(*lane, &op, fdsel, &mut mem_b, &mut new_b);
                    if exp == Expect::Exact(i32::MIN) {
                        fdsel = Some(FdSel::Bad(7));
                        exp = Expect::Exact(-libc::EBADF);
                        fk = Some("poll_add");
                    }
                    if let Some(k) = fk {
                        self.stats.failing = true;
                        if k == "short-rw" {
                            self.stats.short_rw = true;
                        }
                        match rule_for(k, *hard) {
                            LinkRule::Breaks => severed = true,
                            LinkRule::Continues => {
                                if pos + 1 < n {
                                    self.stats.continued_after_failure = true;
                                    if *hard {
                                        self.stats.hard_chain_survived_failure = true;
                                    }
                                }
                            }
                            LinkRule::Unknown => {}
                        }
                    }
                    exp
                };
                if exp == Expect::Cancelled {
                    self.stats.cancelled = true;
                }
                let mem_a = self.build_mem(&self.a, *lane, &op, true);
                entries.push(Entry { lane: *lane, pos, last: pos + 1 == n, hard: *hard, op, a: g.a, fdsel, exp, mem_a, mem_b, ud });
            }
        }
        // ---- statistics
        {
            let mut kinds: Vec<&'static str> = entries.iter().map(|e| e.op.kind()).collect();
            for k in &kinds {
                self.stats.kinds.insert(k);
            }
            kinds.sort();
            kinds.dedup();
            if kinds.len() >= 2 {
                self.stats.multi_kind_batch = true;
            }
            if chains.iter().any(|(_, o, _)| o.len() >= 2) {
                self.stats.link_chain = true;
            }
            if chains.len() >= 2 {
                self.stats.multi_lane = true;
            }
            if entries.len() == self.s.sq_entries as usize {
                self.stats.full_ring_batch = true;
            }
            for e in &entries {
                if e.a {
                    self.stats.async_flag = true;
                }
                if matches!(e.fdsel, Some(FdSel::Reg(_))) {
                    self.stats.fixed_file = true;
                }
                if matches!(e.op, Op::ReadFixed { bad: 0, .. } | Op::WriteFixed { bad: 0, .. }) {
                    self.stats.fixed_buf = true;
                }
            }
        }
        // ---- world A, one submission
        let mut sqes = Vec::with_capacity(entries.len());
        for i in 0..entries.len() {
            let e = &entries[i];
            let sqe = vh::runner::no_panic(e.op.ctor(), || self.build_sqe(&entries[i]))?;
            sqes.push(Sqe::Rusl(sqe, e.ud));
        }
        let cq = match self.s.run(sqes) {
            Ok(cq) => cq,
            Err(mut f) => {
                if f.sig.contains("missing-cqe") {
                    f.what.push_str(&format!("; entries of the batch (user_data, entry): {:x?}", entries.iter().map(|e| (e.ud, format!("{:?}", e.op))).collect::<Vec<_>>()));
                }
                // entries may still be in flight: the memory they reference must outlive them
                std::mem::forget(entries);
                return Err(f);
            }
        };
        // ---- compare
        let mut new_a: Vec<(usize, i32)> = Vec::new();
        let mut mism: Vec<(usize, i32)> = Vec::new();
        for (i, e) in entries.iter().enumerate() {
            let c = cq.iter().find(|c| c.0 == e.ud).expect("session checked one completion per entry");
            let res = c.1;
            let ok = match &e.exp {
                Expect::Exact(v) => res == *v,
                Expect::OneOf(vs) => vs.contains(&res),
                Expect::Cancelled => res == -sys::ECANCELED,
                Expect::NewFd(_) => res >= 0,
            };
            if res >= 0 && matches!(e.op, Op::Openat { .. }) {
                new_a.push((e.lane, res));
            }
            if !ok {
                mism.push((i, res));
            }
        }
        let mut first_err: Option<Failure> = None;
        if !mism.is_empty() {
            let (i, res, before_issue) = super::sock::root_cause(&mism, |i| (entries[i].lane, entries[i].pos), |i| cq.iter().find(|c| c.0 == entries[i].ud).unwrap().1, entries.len());
            let e = &entries[i];
            let exp_s = match &e.exp {
                Expect::Exact(v) => show_res(*v),
                Expect::OneOf(vs) => vs.iter().map(|v| show_res(*v)).collect::<Vec<_>>().join(" or "),
                Expect::Cancelled => "-ECANCELED (an earlier entry of the link chain failed)".to_string(),
                Expect::NewFd(_) => "a new descriptor".to_string(),
            };
            let class = match &e.exp {
                _ if before_issue => "failed-before-issue".to_string(),
                Expect::Cancelled => "not-cancelled".to_string(),
                _ if res == -sys::ECANCELED => "cancelled".to_string(),
                Expect::Exact(v) if res >= 0 && *v >= 0 => "value-differs".to_string(),
                Expect::Exact(v) => format!("ring={} direct={}", cls(res), cls(*v)),
                Expect::OneOf(vs) => format!("ring={} expected={}", cls(res), vs.iter().map(|v| cls(*v)).collect::<Vec<_>>().join("/")),
                Expect::NewFd(_) => format!("ring={} direct=fd", cls(res)),
            };
            let note = if before_issue { "; earlier entries of its chain were cancelled although they come first: the kernel rejected this entry when the chain was submitted, not when it was its turn" } else { "" };
            first_err = Some(Failure::new(
                format!("{}|res-mismatch|{}", e.op.ctor(), class),
                format!("batch {bi}, lane {}, chain position {}{}: {:?} completed with res {} through the ring; the direct call gives {}{}", e.lane, e.pos, if e.last { " (last)" } else { " (linked)" }, e.op, show_res(res), exp_s, note),
            ));
        }
        // descriptors created in this batch: pair them up (per lane in chain order) or close them
        let pair_result = self.adopt_new_fds(&entries, &cq, &new_a, &new_b);
        if let Some(f) = first_err {
            return Err(f);
        }
        pair_result?;
        // ---- memory written by the kernel
        for e in &entries {
            let res = cq.iter().find(|c| c.0 == e.ud).unwrap().1;
            match &e.op {
                Op::Readv { .. } => {
                    if e.mem_a.bufs != e.mem_b.bufs {
                        return Err(Failure::new("new_readv|buffer-mismatch|contents", format!("batch {bi}: {:?} returned {res} in both worlds but the buffers differ: ring {:?} direct {:?}", e.op, e.mem_a.bufs.iter().map(|b| vh::util::escape(&b[..b.len().min(24)])).collect::<Vec<_>>(), e.mem_b.bufs.iter().map(|b| vh::util::escape(&b[..b.len().min(24)])).collect::<Vec<_>>())));
                    }
                }
                Op::Writev { .. } => {
                    // a write must not modify its source
                    if e.mem_a.bufs != e.mem_b.bufs {
                        return Err(Failure::new("new_writev|buffer-mismatch|source modified", format!("batch {bi}: {:?}", e.op)));
                    }
                }
                Op::Statx { .. } if res == 0 => {
                    let a = e.mem_a.stx.as_ref().unwrap();
                    let b = e.mem_b.stx.as_ref().unwrap();
                    let ka = (a.stx_mask, a.stx_mode, a.stx_nlink, a.stx_uid, a.stx_gid, a.stx_size, a.stx_attributes_mask);
                    let kb = (b.stx_mask, b.stx_mode, b.stx_nlink, b.stx_uid, b.stx_gid, b.stx_size, b.stx_attributes_mask);
                    if ka != kb {
                        return Err(Failure::new("new_statx|buffer-mismatch|fields", format!("batch {bi}: {:?}: (mask, mode, nlink, uid, gid, size, attributes_mask) ring {:x?} direct {:x?}", e.op, ka, kb)));
                    }
                }
                Op::Statx { .. } => {
                    let a = e.mem_a.stx.as_ref().unwrap();
                    if a.stx_mask != 0 || a.stx_size != 0 || a.stx_mode != 0 {
                        return Err(Failure::new("new_statx|buffer-mismatch|written on failure", format!("batch {bi}: {:?} failed with {res} but the statx buffer was written", e.op)));
                    }
                }
                _ => {}
            }
        }
        for k in 0..NL {
            let a = &self.fix_a[k * FIXBUF..(k + 1) * FIXBUF];
            if a != &self.fix_b[k][..] {
                let at = a.iter().zip(self.fix_b[k].iter()).position(|(x, y)| x != y).unwrap();
                return Err(Failure::new("new_readv_fixed|buffer-mismatch|registered buffer", format!("batch {bi}: registered buffer of lane {k} differs from the reference copy from offset {at}")));
            }
        }
        // ---- closes took effect
        for e in &entries {
            if let (Op::Close { .. }, Some(FdSel::Slot(i))) = (&e.op, e.fdsel) {
                let res = cq.iter().find(|c| c.0 == e.ud).unwrap().1;
                if res == 0 {
                    let fd_a = self.a.lanes[e.lane].slots[i].take();
                    if let Some(fd_a) = fd_a {
                        let reused = new_a.iter().any(|(_, f)| *f == fd_a);
                        if !reused && sys::fd_is_open(fd_a) {
                            sys::close_quiet(fd_a);
                            return Err(Failure::new("new_close|no-effect|descriptor still open", format!("batch {bi}: close of descriptor {fd_a} completed with 0 but the descriptor is still open")));
                        }
                    }
                }
            }
        }
        Ok(())
    }

    fn adopt_new_fds(&mut self, entries: &[Entry], cq: &[ring::Cqe], _new_a: &[(usize, i32)], _new_b: &[(usize, i32)]) -> Result<(), Failure> {
        let mut result = Ok(());
        for e in entries {
            if !matches!(e.op, Op::Openat { .. }) {
                continue;
            }
            let res = cq.iter().find(|c| c.0 == e.ud).unwrap().1;
            let fd_a = if res >= 0 { Some(res) } else { None };
            let fd_b = if let Expect::NewFd(b) = e.exp { Some(b) } else { None };
            match (fd_a, fd_b) {
                (Some(a), Some(b)) => {
                    self.stats.newfd = true;
                    if let Op::Openat { o, .. } = &e.op {
                        if o & (1 << 13) != 0 {
                            self.stats.tmpfile = true;
                        }
                    }
                    let ia = sys::fd_info(a, &self.a.prefix);
                    let ib = sys::fd_info(b, &self.b.prefix);
                    if ia != ib && result.is_ok() {
                        result = Err(Failure::new("new_openat|fd-refers-elsewhere|fstat/path/flags", format!("{:?}: descriptor from the ring is {:?}, descriptor from openat(2) is {:?}", e.op, ia, ib)));
                    }
                    self.a.lanes[e.lane].slots.push(Some(a));
                    self.b.lanes[e.lane].slots.push(Some(b));
                }
                (Some(a), None) => sys::close_quiet(a),
                (None, Some(b)) => sys::close_quiet(b),
                (None, None) => {}
            }
        }
        result
    }

    /// Keep the number of open descriptors bounded (harness action, both worlds, no ring).
    fn housekeeping(&mut self) {
        for k in 0..NL {
            let open: Vec<usize> = self.b.lanes[k].slots.iter().enumerate().filter(|(_, s)| s.is_some()).map(|(i, _)| i).collect();
            if open.len() > 24 {
                for &i in &open[..open.len() - 12] {
                    if let Some(fd) = self.a.lanes[k].slots[i].take() {
                        sys::close_quiet(fd);
                    }
                    if let Some(fd) = self.b.lanes[k].slots[i].take() {
                        sys::close_quiet(fd);
                    }
                }
            }
            // forget long closed prefixes so that slot references keep hitting live descriptors
            if self.b.lanes[k].slots.len() > 64 {
                let keep: Vec<usize> = (0..self.b.lanes[k].slots.len()).filter(|&i| self.b.lanes[k].slots[i].is_some()).collect();
                let na: Vec<Option<i32>> = keep.iter().map(|&i| self.a.lanes[k].slots[i]).collect();
                let nb: Vec<Option<i32>> = keep.iter().map(|&i| self.b.lanes[k].slots[i]).collect();
                self.a.lanes[k].slots = na;
                self.b.lanes[k].slots = nb;
            }
        }
    }

    /// End of case: descriptors, trees.
    pub fn finish(&mut self) -> Result<(), Failure> {
        // slot tables must agree on what is open
        for k in 0..NL {
            let oa: Vec<bool> = self.a.lanes[k].slots.iter().map(|s| s.is_some()).collect();
            let ob: Vec<bool> = self.b.lanes[k].slots.iter().map(|s| s.is_some()).collect();
            if oa != ob {
                return Err(Failure::new("harness|slot-tables-diverged", format!("lane {k}: {oa:?} vs {ob:?}")));
            }
        }
        self.a.close_all();
        self.b.close_all();
        // no descriptor leaked by the operations (the ring itself is still open: +1)
        let now = sys::open_fd_count();
        let leak = now as i64 - self.fds_at_start as i64 - 1;
        let ta = sys::snapshot(&PathBuf::from(&self.a.prefix));
        let tb = sys::snapshot(&PathBuf::from(&self.b.prefix));
        let diff = sys::tree_diff(&ta, &tb);
        if let Some(d) = diff {
            return Err(Failure::new("ring-world|tree-mismatch|after all batches", format!("the directory driven through the ring differs from the directory driven by direct calls: {d}")));
        }
        if leak != 0 {
            return Err(Failure::new("ring-world|descriptor-leak|after all batches", format!("{leak} more descriptors open than at the start of the case (ring excluded)")));
        }
        Ok(())
    }
}

fn cls(v: i32) -> String {
    if v >= 0 {
        "ok".to_string()
    } else {
        errname(v)
    }
}

fn show_res(v: i32) -> String {
    if v >= 0 {
        format!("{v}")
    } else {
        format!("{v} ({})", errname(v))
    }
}

pub fn fix_range(off: u8, len: u16) -> (usize, usize) {
    let o = off as usize % FIXBUF;
    let n = (len as usize).min(FIXBUF - o);
    (o, n)
}

/// Link rule of a failure class, combining the probed kinds that share a completion path.
pub fn rule_for(kind: &str, hard: bool) -> LinkRule {
    let p = ring::probe();
    let rule = |k: &str| if hard { p.hard_rule(k) } else { p.rule(k) };
    match kind {
        "read_fixed" | "write_fixed" => {
            let a = rule(kind);
            let b = rule(if kind == "read_fixed" { "readv" } else { "writev" });
            if a == b {
                a
            } else {
                LinkRule::Unknown
            }
        }
        k => rule(k),
    }
}

/// Arguments rejected before issue are kept out of multi-entry chains.
fn sanitise_for_chain(op: &mut Op) {
    let fix_name = |n: &mut u8| {
        if *n % NNAMES == NAME_EMPTY {
            *n = 0;
        }
    };
    match op {
        Op::Openat { name, .. } | Op::Statx { name, .. } | Op::Mkdirat { name, .. } | Op::Unlinkat { name, .. } => fix_name(name),
        Op::Renameat { oname, nname, .. } => {
            fix_name(oname);
            fix_name(nname);
        }
        Op::ReadFixed { bad, .. } | Op::WriteFixed { bad, .. } => *bad = 0,
        _ => {}
    }
}

/// Applied to every entry. The ring copies path names in before issue, the system calls
/// interleave that with their other argument checks: with an empty name *and* a second error
/// (bad flags, bad second descriptor) the two report different errors — kernel precedence, not
/// the wrapper's. An empty name is therefore only kept where it is the only possible error
/// (one-path operations without flags) or no error at all (`statx` with exactly AT_EMPTY_PATH).
fn sanitise_always(op: &mut Op) {
    let fix = |n: &mut u8| {
        if *n % NNAMES == NAME_EMPTY {
            *n = 0;
        }
    };
    match op {
        Op::Renameat { oname, nname, .. } => {
            fix(oname);
            fix(nname);
        }
        Op::Statx { name, fl, .. } if *fl != 1 && *fl != 0 => fix(name),
        _ => {}
    }
}

/// Regular files and directories are always readable and writable for poll purposes; an
/// event set without any of those would never complete.
fn sanitise_poll(ev: &mut u16) {
    // bits 0 IN, 2 OUT, 3 RDNORM, 4 WRNORM
    if *ev & 0b11101 == 0 {
        *ev |= 1;
    }
}

// ---------------------------------------------------------------- generators

fn fdref() -> impl Strategy<Value = FdRef> {
    prop_oneof![10 => (0u8..12).prop_map(FdRef::Slot), 1 => Just(FdRef::Bad), 1 => Just(FdRef::Dir), 3 => (0u8..2).prop_map(FdRef::Reg), 1 => Just(FdRef::Reg(2))]
}

fn dirref() -> impl Strategy<Value = DirRef> {
    prop_oneof![5 => Just(DirRef::Abs), 5 => Just(DirRef::LaneDir), 1 => Just(DirRef::BadFd), 1 => Just(DirRef::NotDir)]
}

fn name() -> impl Strategy<Value = u8> {
    prop_oneof![12 => 0u8..9, 3 => 9u8..NNAMES]
}

fn lens() -> impl Strategy<Value = Vec<u16>> {
    prop::collection::vec(prop_oneof![1 => Just(0u16), 6 => 1u16..40, 2 => 40u16..300], 1..=3)
}

fn oflags() -> impl Strategy<Value = u16> {
    prop_oneof![
        10 => oflags_mixed(),
        // an unnamed temporary file in a directory: O_TMPFILE with a writable access mode (the
        // kernel applies the mode argument here as it does for O_CREAT), sometimes with O_EXCL
        1 => (1u16..3, any::<bool>()).prop_map(|(acc, excl)| acc | (1 << 13) | if excl { 1 << 3 } else { 0 }),
    ]
}

fn oflags_mixed() -> impl Strategy<Value = u16> {
    (0u16..3, any::<u16>(), any::<u16>()).prop_map(|(acc, r1, r2)| {
        // each optional flag with probability 1/4, CREAT 1/2
        let mut o = acc | (r1 & r2 & 0x1ff8);
        if r1 & 0x8000 != 0 {
            o |= 4;
        }
        // O_CREAT|O_DIRECTORY is rejected before issue (EINVAL): never generated
        if o & 4 != 0 {
            o &= !(1 << 6);
        }
        o
    })
}

fn mode() -> impl Strategy<Value = u16> {
    prop_oneof![4 => Just(0o644u16), 2 => Just(0o755u16), 1 => Just(0u16), 2 => 0u16..0o10000]
}

pub fn op_strategy() -> impl Strategy<Value = Op> {
    prop_oneof![
        3 => (fdref(), lens()).prop_map(|(fd, lens)| Op::Readv { fd, lens }),
        3 => (fdref(), lens(), any::<u8>()).prop_map(|(fd, lens, fill)| Op::Writev { fd, lens, fill }),
        2 => (fdref(), any::<u8>(), 0u16..300, prop_oneof![9 => Just(0u8), 1 => 1u8..3]).prop_map(|(fd, off, len, bad)| Op::ReadFixed { fd, off, len, bad }),
        2 => (fdref(), any::<u8>(), 0u16..300, prop_oneof![9 => Just(0u8), 1 => 1u8..3]).prop_map(|(fd, off, len, bad)| Op::WriteFixed { fd, off, len, bad }),
        4 => (dirref(), name(), oflags(), mode()).prop_map(|(dir, name, o, mode)| Op::Openat { dir, name, o, mode }),
        2 => fdref().prop_map(|fd| Op::Close { fd }),
        3 => (dirref(), name(), prop_oneof![2 => Just(0x7ffu16), 1 => any::<u16>().prop_map(|m| m & 0x3fff)], prop_oneof![6 => Just(0u8), 2 => Just(1u8), 2 => 0u8..32]).prop_map(|(dir, name, mask, fl)| Op::Statx { dir, name, mask, fl }),
        2 => (dirref(), name(), mode()).prop_map(|(dir, name, mode)| Op::Mkdirat { dir, name, mode }),
        2 => (dirref(), name(), any::<bool>()).prop_map(|(dir, name, rmdir)| Op::Unlinkat { dir, name, rmdir }),
        2 => (dirref(), name(), dirref(), name(), prop_oneof![6 => Just(0u8), 2 => Just(1u8), 2 => Just(2u8), 1 => Just(3u8)]).prop_map(|(odir, oname, ndir, nname, fl)| Op::Renameat { odir, oname, ndir, nname, fl }),
        1 => (0u16..1500, any::<bool>(), prop_oneof![3 => Just(0u8), 1 => 1u8..4]).prop_map(|(us, abs, count)| Op::Timeout { us, abs, count }),
        1 => (fdref(), 0u16..128).prop_map(|(fd, ev)| Op::PollAdd { fd, ev }),
    ]
}

pub fn batch_strategy() -> impl Strategy<Value = Batch> {
    let opg = (op_strategy(), prop::bool::weighted(0.15)).prop_map(|(op, a)| OpG { op, a });
    let chain = (0u8..NL as u8, prop::collection::vec(opg, 1..=8), prop::bool::weighted(0.3)).prop_map(|(lane, mut ops, hard)| {
        // short chains are the common case, long ones regular
        if lane % 3 == 0 && ops.len() > 2 {
            ops.truncate(2);
        }
        Chain { lane, ops, hard }
    });
    prop::collection::vec(chain, 1..=NL).prop_map(|chains| Batch { chains })
}

pub fn case_strategy(max_batches: usize) -> impl Strategy<Value = FsCase> {
    (ring::cfg_strategy(), [0u16..300, 0u16..300], prop::collection::vec(batch_strategy(), 1..=max_batches)).prop_map(|(cfg, sizes, batches)| FsCase { cfg, sizes, batches })
}

// ---------------------------------------------------------------- case driver

pub fn run_case(ctx: &Ctx, case: &FsCase) -> CaseResult {
    let mut e = match Engine::start(ctx, case.cfg, case.sizes) {
        Started::Ok(e) => e,
        Started::Inconclusive(why) => {
            eprintln!("[C18 fs] inconclusive: {why}");
            ctx.inconclusive();
            return Ok(CaseReport::new());
        }
        Started::Fail(f) => return Err(f),
    };
    let mut res: Result<(), Failure> = Ok(());
    for (bi, b) in case.batches.iter().enumerate() {
        res = e.run_batch(bi, b);
        if res.is_err() {
            break;
        }
    }
    if res.is_ok() {
        res = e.finish();
    }
    let submitted = e.s.submitted;
    let sq = e.s.sq_entries as u64;
    crate::check::MAX_BATCHES.fetch_max(e.s.batches, std::sync::atomic::Ordering::Relaxed);
    e.cleanup();
    res?;
    let st = &e.stats;
    let mut rep = CaseReport::new();
    rep.nontrivial_if(st.multi_kind_batch || st.link_chain);
    for k in &st.kinds {
        rep.class(match *k {
            "readv" => "op-readv",
            "writev" => "op-writev",
            "read_fixed" => "op-read-fixed",
            "write_fixed" => "op-write-fixed",
            "openat" => "op-openat",
            "close" => "op-close",
            "statx" => "op-statx",
            "mkdirat" => "op-mkdirat",
            "unlinkat" => "op-unlinkat",
            "renameat" => "op-renameat",
            "timeout" => "op-timeout",
            _ => "op-poll-add",
        });
    }
    rep.class_if(st.link_chain, "link-chain");
    rep.class_if(st.cancelled, "chain-entries-cancelled");
    rep.class_if(st.hard_chain_survived_failure, "hard-linked-chain-went-on-after-a-failed-entry");
    rep.class_if(st.continued_after_failure, "chain-continued-after-failure");
    rep.class_if(st.failing, "failing-entry");
    rep.class_if(st.short_rw, "short-transfer");
    rep.class_if(st.newfd, "descriptor-result");
    rep.class_if(st.tmpfile, "openat-unnamed-temporary-file-created");
    rep.class_if(st.multi_lane, "independent-chains");
    rep.class_if(st.fixed_file, "registered-file");
    rep.class_if(st.fixed_buf, "registered-buffer");
    rep.class_if(st.async_flag, "iosqe-async");
    rep.class_if(st.full_ring_batch, "batch-fills-ring");
    rep.class_if(submitted >= 4 * sq, "ring-cycled-4x");
    rep.class_if(submitted >= 100 * sq, "ring-cycled-100x");
    rep.class_if(case.cfg.sq_entries() == 1, "ring-size-1");
    rep.class_if(case.cfg.sq_entries() == 32, "ring-size-32");
    rep.class_if(case.cfg.entries != case.cfg.sq_entries(), "entries-not-power-of-two");
    rep.class_if(case.cfg.sqe128, "sqe128");
    rep.class_if(case.cfg.cqe32, "cqe32");
    rep.class_if(case.cfg.sqpoll, "sqpoll");
    rep.class_if(case.cfg.clamp, "clamp");
    Ok(rep)
}
