//! Ring configuration, one-time kernel probe, and the submit/reap session used by all
//! differential sub-checks.
use std::sync::OnceLock;

use proptest::prelude::*;
use rusl::io_uring::{io_uring_enter, setup_io_uring};
use rusl::platform::{IoUring, IoUringEnterFlags, IoUringParamFlags, IoUringSubmissionQueueEntry};
use serde::{Deserialize, Serialize};
use vh::runner::{no_panic, Failure};

use super::sys::{self, RawSqe};

#[derive(Debug, Clone, Copy, Serialize, Deserialize, PartialEq, Eq, Hash)]
pub struct RingCfg {
    /// requested entries, 1..=32 (the kernel rounds up to a power of two)
    pub entries: u32,
    pub clamp: bool,
    pub sqe128: bool,
    pub cqe32: bool,
    pub sqpoll: bool,
}

impl RingCfg {
    pub fn plain(entries: u32) -> RingCfg {
        RingCfg { entries, clamp: false, sqe128: false, cqe32: false, sqpoll: false }
    }
    pub fn flags(&self) -> IoUringParamFlags {
        let mut f = IoUringParamFlags::empty();
        if self.clamp {
            f |= IoUringParamFlags::IORING_SETUP_CLAMP;
        }
        if self.sqe128 {
            f |= IoUringParamFlags::IORING_SETUP_SQE128;
        }
        if self.cqe32 {
            f |= IoUringParamFlags::IORING_SETUP_CQE32;
        }
        if self.sqpoll {
            f |= IoUringParamFlags::IORING_SETUP_SQPOLL;
        }
        f
    }
    pub fn sq_entries(&self) -> u32 {
        self.entries.max(1).next_power_of_two()
    }
    pub fn flag_name(&self) -> String {
        let mut v = Vec::new();
        if self.clamp {
            v.push("CLAMP");
        }
        if self.sqe128 {
            v.push("SQE128");
        }
        if self.cqe32 {
            v.push("CQE32");
        }
        if self.sqpoll {
            v.push("SQPOLL");
        }
        if v.is_empty() {
            "default".to_string()
        } else {
            v.join("|")
        }
    }
    fn from_bits(entries: u32, b: u8) -> RingCfg {
        RingCfg { entries, clamp: b & 1 != 0, sqe128: b & 2 != 0, cqe32: b & 4 != 0, sqpoll: b & 8 != 0 }
    }
}

/// Does a failing request of this kind sever an `IOSQE_IO_LINK` chain on the running kernel?
/// (Kernel behaviour, measured with raw SQEs that do not go through the constructors under
/// test; the io_uring_enter(2) rule "any error breaks the chain" is not what every kernel does
/// for every opcode.)
#[derive(Debug, Clone, Copy, PartialEq, Eq, Serialize)]
pub enum LinkRule {
    Breaks,
    Continues,
    /// variants disagreed or the probe could not run: the kind is only used at a chain end
    Unknown,
}

#[derive(Debug, Clone, Serialize)]
pub struct Probe {
    pub available: bool,
    pub setup_error: Option<String>,
    /// accepted flag-bit combinations (bit0 CLAMP, bit1 SQE128, bit2 CQE32, bit3 SQPOLL)
    pub accepted: Vec<u8>,
    pub refused: Vec<String>,
    pub single_mmap: bool,
    pub link: std::collections::BTreeMap<String, LinkRule>,
    /// the same for `IOSQE_IO_HARDLINK` chains (which survive completion errors but not every failure)
    pub hard: std::collections::BTreeMap<String, LinkRule>,
    pub unsupported_ops: Vec<String>,
}

static PROBE: OnceLock<Probe> = OnceLock::new();

pub fn probe() -> &'static Probe {
    PROBE.get_or_init(run_probe)
}

impl Probe {
    pub fn accepts(&self, cfg: &RingCfg) -> bool {
        let b = (cfg.clamp as u8) | (cfg.sqe128 as u8) << 1 | (cfg.cqe32 as u8) << 2 | (cfg.sqpoll as u8) << 3;
        self.accepted.contains(&b)
    }
    pub fn rule(&self, kind: &str) -> LinkRule {
        self.link.get(kind).copied().unwrap_or(LinkRule::Unknown)
    }
    pub fn hard_rule(&self, kind: &str) -> LinkRule {
        self.hard.get(kind).copied().unwrap_or(LinkRule::Unknown)
    }
    pub fn cfgs(&self, entries: u32) -> Vec<RingCfg> {
        self.accepted.iter().map(|&b| RingCfg::from_bits(entries, b)).collect()
    }
}

pub fn cfg_strategy() -> impl Strategy<Value = RingCfg> {
    let acc = probe().accepted.clone();
    let acc = if acc.is_empty() { vec![0u8] } else { acc };
    // plain rings most of the time, every accepted combination regularly
    let bits = prop_oneof![3 => Just(0u8), 5 => prop::sample::select(acc)];
    let entries = prop_oneof![2 => Just(1u32), 2 => Just(2u32), 1 => Just(3u32), 2 => Just(4u32), 2 => Just(8u32), 1 => Just(16u32), 2 => Just(32u32), 3 => 1u32..=32];
    (entries, bits).prop_map(|(e, b)| RingCfg::from_bits(e, b))
}

fn run_probe() -> Probe {
    sys::install_alarm_handler();
    let mut p = Probe { available: false, setup_error: None, accepted: vec![], refused: vec![], single_mmap: false, link: Default::default(), hard: Default::default(), unsupported_ops: vec![] };
    for b in 0u8..16 {
        let cfg = RingCfg::from_bits(4, b);
        match setup_io_uring(4, cfg.flags(), 0, 1) {
            Ok(r) => {
                p.accepted.push(b);
                // Drop as the code under test does it; teardown is judged in the "drop" sub-check only.
                drop(r);
            }
            Err(e) => {
                if b == 0 {
                    p.setup_error = Some(format!("{e}"));
                }
                p.refused.push(format!("{}: {e}", cfg.flag_name()));
            }
        }
    }
    p.available = p.accepted.contains(&0);
    if !p.available {
        return p;
    }
    // single mmap feature as reported by the kernel
    {
        let mut params = rusl::platform::IoUringParams::new(IoUringParamFlags::empty(), 0, 0);
        if let Ok(fd) = rusl::io_uring::io_uring_setup(2, &mut params) {
            // IORING_FEAT_SINGLE_MMAP = 1
            p.single_mmap = params.0.features & 1 != 0;
            sys::close_quiet(fd.value());
        }
    }
    probe_links(&mut p);
    p
}

/// For each op kind: submit `[failing op | IO_LINK, NOP]` built from raw SQEs and look at the NOP.
fn probe_links(p: &mut Probe) {
    let root = format!("/tmp/verif-c18-probe-{}", std::process::id());
    let _ = std::fs::remove_dir_all(&root);
    if std::fs::create_dir_all(&root).is_err() {
        return;
    }
    let Ok(mut s) = Session::new(RingCfg::plain(8)) else { return };
    let file = sys::cstr(format!("{root}/file").as_bytes());
    let missing = sys::cstr(format!("{root}/missing").as_bytes());
    let missing2 = sys::cstr(format!("{root}/missing2").as_bytes());
    let rootc = sys::cstr(root.as_bytes());
    std::fs::write(format!("{root}/file"), b"12345").unwrap();
    let bad = sys::bad_fd(0);
    unsafe {
        let ffd = libc::open(file.as_ptr(), libc::O_RDONLY);
        let dfd = libc::open(rootc.as_ptr(), libc::O_RDONLY | libc::O_DIRECTORY);
        let usock = libc::socket(libc::AF_UNIX, libc::SOCK_STREAM, 0);
        let mut buf = [0u8; 64];
        let iov = [libc::iovec { iov_base: buf.as_mut_ptr().cast(), iov_len: 64 }];
        let mut stx: libc::statx = core::mem::zeroed();
        let ts = [0i64, 1000]; // __kernel_timespec 1 us
        let mut mh: libc::msghdr = core::mem::zeroed();
        mh.msg_iov = iov.as_ptr() as *mut libc::iovec;
        mh.msg_iovlen = 1;
        let mut sun: libc::sockaddr_un = core::mem::zeroed();
        sun.sun_family = libc::AF_UNIX as u16;
        for (i, c) in format!("{root}/nosock").bytes().enumerate() {
            sun.sun_path[i] = c as libc::c_char;
        }
        let base = RawSqe::default();
        let variants: Vec<(&str, &str, RawSqe)> = vec![
            ("readv", "EBADF", RawSqe { opcode: sys::OP_READV, fd: bad, addr: iov.as_ptr() as u64, len: 1, ..base }),
            ("readv", "EISDIR", RawSqe { opcode: sys::OP_READV, fd: dfd, addr: iov.as_ptr() as u64, len: 1, ..base }),
            ("readv", "short", RawSqe { opcode: sys::OP_READV, fd: ffd, addr: iov.as_ptr() as u64, len: 1, ..base }),
            ("writev", "EBADF", RawSqe { opcode: sys::OP_WRITEV, fd: bad, addr: iov.as_ptr() as u64, len: 1, ..base }),
            ("writev", "EBADF-rdonly", RawSqe { opcode: sys::OP_WRITEV, fd: ffd, addr: iov.as_ptr() as u64, len: 1, ..base }),
            ("read_fixed", "EBADF", RawSqe { opcode: sys::OP_READ_FIXED, fd: bad, addr: buf.as_ptr() as u64, len: 8, ..base }),
            ("write_fixed", "EBADF", RawSqe { opcode: sys::OP_WRITE_FIXED, fd: bad, addr: buf.as_ptr() as u64, len: 8, ..base }),
            ("openat", "ENOENT", RawSqe { opcode: sys::OP_OPENAT, fd: libc::AT_FDCWD, addr: missing.as_ptr() as u64, ..base }),
            ("openat", "EBADF", RawSqe { opcode: sys::OP_OPENAT, fd: bad, addr: b"x\0".as_ptr() as u64, ..base }),
            ("close", "EBADF", RawSqe { opcode: sys::OP_CLOSE, fd: bad, ..base }),
            ("statx", "ENOENT", RawSqe { opcode: sys::OP_STATX, fd: libc::AT_FDCWD, addr: missing.as_ptr() as u64, off: &mut stx as *mut _ as u64, len: 0x7ff, ..base }),
            ("statx", "EBADF", RawSqe { opcode: sys::OP_STATX, fd: bad, addr: b"x\0".as_ptr() as u64, off: &mut stx as *mut _ as u64, len: 0x7ff, ..base }),
            ("mkdirat", "EEXIST", RawSqe { opcode: sys::OP_MKDIRAT, fd: libc::AT_FDCWD, addr: rootc.as_ptr() as u64, len: 0o755, ..base }),
            ("mkdirat", "EBADF", RawSqe { opcode: sys::OP_MKDIRAT, fd: bad, addr: b"x\0".as_ptr() as u64, len: 0o755, ..base }),
            ("unlinkat", "ENOENT", RawSqe { opcode: sys::OP_UNLINKAT, fd: libc::AT_FDCWD, addr: missing.as_ptr() as u64, ..base }),
            ("unlinkat", "EISDIR", RawSqe { opcode: sys::OP_UNLINKAT, fd: libc::AT_FDCWD, addr: rootc.as_ptr() as u64, ..base }),
            ("renameat", "ENOENT", RawSqe { opcode: sys::OP_RENAMEAT, fd: libc::AT_FDCWD, addr: missing.as_ptr() as u64, off: missing2.as_ptr() as u64, len: libc::AT_FDCWD as u32, ..base }),
            ("renameat", "EBADF", RawSqe { opcode: sys::OP_RENAMEAT, fd: bad, addr: b"x\0".as_ptr() as u64, off: missing2.as_ptr() as u64, len: libc::AT_FDCWD as u32, ..base }),
            ("poll_add", "EBADF", RawSqe { opcode: sys::OP_POLL_ADD, fd: bad, op_flags: libc::POLLIN as u32, ..base }),
            ("timeout", "ETIME", RawSqe { opcode: sys::OP_TIMEOUT, fd: 0, addr: ts.as_ptr() as u64, len: 1, ..base }),
            ("socket", "EPROTONOSUPPORT", RawSqe { opcode: sys::OP_SOCKET, fd: libc::AF_UNIX, off: libc::SOCK_STREAM as u64, len: 99, ..base }),
            ("connect", "EBADF", RawSqe { opcode: sys::OP_CONNECT, fd: bad, addr: &sun as *const _ as u64, off: 110, ..base }),
            ("connect", "ENOENT", RawSqe { opcode: sys::OP_CONNECT, fd: usock, addr: &sun as *const _ as u64, off: 110, ..base }),
            ("accept", "EBADF", RawSqe { opcode: sys::OP_ACCEPT, fd: bad, ..base }),
            ("accept", "EINVAL", RawSqe { opcode: sys::OP_ACCEPT, fd: usock, ..base }),
            ("sendmsg", "EBADF", RawSqe { opcode: sys::OP_SENDMSG, fd: bad, addr: &mh as *const _ as u64, len: 1, ..base }),
            ("sendmsg", "ENOTCONN", RawSqe { opcode: sys::OP_SENDMSG, fd: usock, addr: &mh as *const _ as u64, len: 1, ..base }),
            ("recvmsg", "EBADF", RawSqe { opcode: sys::OP_RECVMSG, fd: bad, addr: &mut mh as *mut _ as u64, len: 1, ..base }),
            ("recvmsg", "ENOTCONN-or-EINVAL", RawSqe { opcode: sys::OP_RECVMSG, fd: usock, addr: &mut mh as *mut _ as u64, len: 1, op_flags: libc::MSG_DONTWAIT as u32, ..base }),
        ];
        let mut ud = 0x5000u64;
        // per kind: were all heads "opcode unknown to this kernel" answers?
        let mut all_unsup: std::collections::BTreeMap<&str, bool> = Default::default();
        for (kind, why, sqe0) in variants {
          for hard in [false, true] {
            let mut sqe = sqe0;
            ud += 2;
            sqe.flags |= if hard { sys::SQE_IO_HARDLINK } else { sys::SQE_IO_LINK };
            sqe.user_data = ud;
            let nop = RawSqe { opcode: sys::OP_NOP, user_data: ud + 1, ..base };
            let key = if why == "short" { "short-rw".to_string() } else { kind.to_string() };
            let Ok(cq) = s.run(vec![Sqe::Raw(sqe), Sqe::Raw(nop)]) else {
                if hard { p.hard.insert(key, LinkRule::Unknown); } else { p.link.insert(key, LinkRule::Unknown); }
                continue;
            };
            let head = cq.iter().find(|c| c.0 == ud).map(|c| c.1);
            let tail = cq.iter().find(|c| c.0 == ud + 1).map(|c| c.1);
            if why != "short" && !hard {
                let unsup = matches!(head, Some(h) if h == -libc::EINVAL || h == -libc::EOPNOTSUPP);
                let e = all_unsup.entry(kind).or_insert(true);
                *e = *e && unsup;
            }
            let failed_as_meant = match head {
                Some(h) => h < 0 || (why == "short" && h < 64),
                None => false,
            };
            let this = match (failed_as_meant, tail) {
                (true, Some(t)) if t == -sys::ECANCELED => LinkRule::Breaks,
                (true, Some(0)) => LinkRule::Continues,
                _ => LinkRule::Unknown,
            };
            let table = if hard { &mut p.hard } else { &mut p.link };
            let merged = match table.get(&key) {
                None => this,
                Some(&prev) if prev == this => this,
                Some(_) => LinkRule::Unknown,
            };
            table.insert(key, merged);
          }
        }
        for (k, v) in all_unsup {
            if v {
                p.unsupported_ops.push(k.to_string());
            }
        }
        sys::close_quiet(ffd);
        sys::close_quiet(dfd);
        sys::close_quiet(usock);
    }
    s.finish();
    let _ = std::fs::remove_dir_all(&root);
}

// ---------------------------------------------------------------- session

pub enum Sqe {
    /// an entry built by a constructor under test, and the user_data it was asked to carry
    Rusl(IoUringSubmissionQueueEntry, u64),
    Raw(RawSqe),
}

pub struct Session {
    pub ring: Option<IoUring>,
    pub cfg: RingCfg,
    pub sq_entries: u32,
    pub submitted: u64,
    pub batches: u64,
}

pub type Cqe = (u64, i32, u32);

impl Session {
    pub fn new(cfg: RingCfg) -> Result<Session, String> {
        sys::install_alarm_handler();
        let r = vh::runner::catch(|| setup_io_uring(cfg.entries, cfg.flags(), 0, 5));
        match r {
            Ok(Ok(ring)) => Ok(Session { ring: Some(ring), cfg, sq_entries: cfg.sq_entries(), submitted: 0, batches: 0 }),
            Ok(Err(e)) => Err(format!("{e}")),
            Err((loc, msg)) => Err(format!("panic at {loc}: {msg}")),
        }
    }

    pub fn fd(&self) -> rusl::platform::Fd {
        self.ring.as_ref().unwrap().fd
    }

    /// Submit the entries as one batch and reap exactly one completion per entry.
    /// Errors are failures of the ring mechanics (missing/duplicate/foreign completion).
    pub fn run(&mut self, sqes: Vec<Sqe>) -> Result<Vec<Cqe>, Failure> {
        let n = sqes.len() as u32;
        assert!(n >= 1 && n <= self.sq_entries, "harness bug: batch larger than the ring");
        let sqpoll = self.cfg.sqpoll;
        let ring = self.ring.as_mut().unwrap();
        // nothing may be pending from earlier batches
        if let Some(c) = no_panic("IoUring::get_next_cqe", || ring.get_next_cqe().map(|c| (c.0.user_data, c.0.res)))? {
            return Err(Failure::new("ring|extra-cqe|before batch", format!("completion (user_data {:#x}, res {}) present before anything was submitted in this batch", c.0, c.1)));
        }
        let mut expected: Vec<u64> = Vec::with_capacity(n as usize);
        for s in sqes {
            let mut slot = no_panic("IoUring::get_next_sqe_slot", || ring.get_next_sqe_slot())?;
            if slot.is_none() && sqpoll {
                // the submission thread publishes the consumed head after issuing the entries, which
                // can be later than their completions: "full" is transient here, not a defect
                sys::guard_arm(30);
                while slot.is_none() && !sys::guard_fired() {
                    std::thread::yield_now();
                    slot = no_panic("IoUring::get_next_sqe_slot", || ring.get_next_sqe_slot())?;
                }
                sys::guard_disarm();
            }
            let Some(slot) = slot else {
                return Err(Failure::new(if sqpoll { "ring|no-sqe-slot|hang guard" } else { "ring|no-sqe-slot|ring not full" }, format!("get_next_sqe_slot returned None with {} of {} slots in use", expected.len(), self.sq_entries)));
            };
            unsafe {
                match s {
                    Sqe::Rusl(e, ud) => {
                        expected.push(ud);
                        slot.write(e);
                    }
                    Sqe::Raw(r) => {
                        expected.push(r.user_data);
                        slot.cast::<RawSqe>().write(r);
                    }
                }
            }
        }
        no_panic("IoUring::flush_submission_queue", || ring.flush_submission_queue())?;
        let fd = ring.fd;
        let mut got: Vec<Cqe> = Vec::with_capacity(n as usize);
        let mut to_submit = n;
        sys::guard_arm(30);
        let res = (|| -> Result<(), Failure> {
            let mut spins = 0u32;
            loop {
                let remaining = n - got.len() as u32;
                if remaining == 0 {
                    break;
                }
                if sys::guard_fired() {
                    return Err(Failure::new("ring|missing-cqe|hang guard", format!("{} of {} completions after 30 s (expected user_data {:x?}, got {:x?})", got.len(), n, expected, got)));
                }
                let mut flags = IoUringEnterFlags::IORING_ENTER_GETEVENTS;
                if sqpoll {
                    // store(tail) ; full barrier ; load(flags) — the barrier is the caller's job
                    core::sync::atomic::fence(core::sync::atomic::Ordering::SeqCst);
                    if ring.needs_wakeup() {
                        flags |= IoUringEnterFlags::IORING_ENTER_SQ_WAKEUP;
                    }
                }
                // never wait for more than what has been handed to the kernel
                let wait = if sqpoll || to_submit == 0 { 1 } else { remaining.min(to_submit.max(1)) };
                let r = no_panic("io_uring_enter", || io_uring_enter(fd, if sqpoll { 0 } else { to_submit }, wait, flags))?;
                match r {
                    Ok(k) => {
                        if !sqpoll {
                            to_submit = to_submit.saturating_sub(k as u32);
                        }
                    }
                    Err(e) => {
                        let code = e.code.map(|c| c.raw()).unwrap_or(0);
                        if code == libc::EINTR {
                            // the guard is looked at on the next round
                        } else if code == libc::EAGAIN || code == libc::EBUSY {
                            spins += 1;
                            if spins > 10_000 {
                                return Err(Failure::new("io_uring_enter|error|EAGAIN forever", format!("{e}")));
                            }
                            std::thread::yield_now();
                        } else {
                            return Err(Failure::new(format!("io_uring_enter|error|{}", sys::errname(-code)), format!("io_uring_enter(to_submit {to_submit}, min_complete {wait}) failed: {e}")));
                        }
                    }
                }
                loop {
                    let c = no_panic("IoUring::get_next_cqe", || ring.get_next_cqe().map(|c| (c.0.user_data, c.0.res, c.0.flags)))?;
                    match c {
                        Some(c) => got.push(c),
                        None => break,
                    }
                    if got.len() as u32 > n {
                        break;
                    }
                }
                if got.len() as u32 > n {
                    break;
                }
            }
            Ok(())
        })();
        sys::guard_disarm();
        res?;
        self.submitted += n as u64;
        self.batches += 1;
        // exactly one completion per submission, carrying its user_data
        let mut seen: Vec<u64> = Vec::new();
        for c in &got {
            if !expected.contains(&c.0) {
                return Err(Failure::new("ring|foreign-cqe|user_data never submitted", format!("completion with user_data {:#x} (res {}) but this batch submitted {:x?}", c.0, c.1, expected)));
            }
            if seen.contains(&c.0) {
                return Err(Failure::new("ring|duplicate-cqe|same user_data twice", format!("two completions with user_data {:#x}; batch {:x?}, completions {:x?}", c.0, expected, got)));
            }
            seen.push(c.0);
        }
        if seen.len() != expected.len() {
            return Err(Failure::new("ring|missing-cqe|count", format!("{} completions for {} submissions", seen.len(), expected.len())));
        }
        Ok(got)
    }

    /// Drop the ring the way a caller would. Teardown is judged elsewhere.
    pub fn finish(&mut self) {
        if let Some(r) = self.ring.take() {
            if std::thread::panicking() {
                // keep the information about the panic that is unwinding (a nested catch resets it)
                drop(r);
            } else {
                let _ = vh::runner::catch(move || drop(r));
            }
        }
    }
}

impl Drop for Session {
    fn drop(&mut self) {
        self.finish();
    }
}
