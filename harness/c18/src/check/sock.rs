//! "sock" differential: socket, connect, accept, sendmsg, recvmsg, poll_add, close through the
//! ring (world A) against direct libc calls on twin sockets (world B). Same lane/chain
//! structure and B-first execution as the "fs" sub-check.
use std::path::PathBuf;

use proptest::prelude::*;
use rusl::platform::{
    AddressFamily, ControlMessageRaw, ControlMessageSend, Fd, IoSlice, IoUringSQEFlags, IoUringSubmissionQueueEntry, MsgHdr, MsgHdrBorrow, PollAddMultiFlags, SendDropGuard, SocketAddressInet, SocketAddressUnix,
    SocketArgUnix, SocketFlags, SocketOptions, SocketType,
};
use rusl::string::unix_str::UnixString;
use serde::{Deserialize, Serialize};
use vh::runner::{CaseReport, CaseResult, Ctx, Failure};

use super::fs::{case_root, poll_libc, poll_rusl, rfd};
use super::ring::{self, LinkRule, RingCfg, Session, Sqe};
use super::sys::{self, errname};

pub const NL: usize = 4;

#[derive(Debug, Clone, Serialize, Deserialize)]
pub struct SockCase {
    pub cfg: RingCfg,
    /// `Connect` entries are kept (else dropped from the batches) — a minority of the cases, so
    /// that a defect confined to one constructor cannot end most cases early
    pub ring_connect: bool,
    /// `Accept { addr: true }` keeps its out-parameters (else they are null)
    pub accept_addr: bool,
    /// the lanes' unix listeners are bound to abstract-namespace names (leading NUL, length carried
    /// by the address length alone) instead of paths
    #[serde(default)]
    pub abstract_listener: bool,
    pub steps: Vec<Step>,
}

#[derive(Debug, Clone, Serialize, Deserialize)]
pub enum Step {
    Batch(Vec<SChain>),
    /// harness action in both worlds, not through the ring: a new client socket connects to the
    /// lane's unix listener
    DirectConnect { lane: u8 },
}

#[derive(Debug, Clone, Serialize, Deserialize)]
pub struct SChain {
    pub lane: u8,
    pub ops: Vec<SOpG>,
}

#[derive(Debug, Clone, Serialize, Deserialize)]
pub struct SOpG {
    pub op: SOp,
    pub a: bool,
}

#[derive(Debug, Clone, Copy, Serialize, Deserialize, PartialEq, Eq)]
pub enum SRef {
    Slot(u8),
    Bad,
    /// the lane's listening unix socket
    Listener,
    /// a regular file
    File,
}

#[derive(Debug, Clone, Serialize, Deserialize)]
pub enum SOp {
    /// dom: 0 UNIX 1 INET 2 INET6 3 AF_MAX; ty: 0 STREAM 1 DGRAM 2 SEQPACKET 3 RDM (a raw socket would see other processes' traffic); proto: 0 -> 0, 1 -> 6, 2 -> 17, 3 -> 99
    Socket { dom: u8, ty: u8, nb: bool, ce: bool, proto: u8 },
    /// to: 0 the lane's listener path, 1 a missing path, 2 the path of a regular file
    Connect { sock: SRef, to: u8 },
    Accept { inet: bool, addr: bool, nb: bool, ce: bool },
    /// fl: bit0 MSG_DONTWAIT, bit1 MSG_NOSIGNAL
    Sendmsg { sock: SRef, lens: Vec<u16>, fill: u8, pass_fd: bool, raw: bool, fl: u8 },
    Recvmsg { sock: SRef, lens: Vec<u16>, ctrl: bool, dontwait: bool, peek: bool },
    PollAdd { sock: SRef, ev: u16 },
    Close { sock: SRef },
}

impl SOp {
    pub fn kind(&self) -> &'static str {
        match self {
            SOp::Socket { .. } => "socket",
            SOp::Connect { .. } => "connect",
            SOp::Accept { .. } => "accept",
            SOp::Sendmsg { .. } => "sendmsg",
            SOp::Recvmsg { .. } => "recvmsg",
            SOp::PollAdd { .. } => "poll_add",
            SOp::Close { .. } => "close",
        }
    }
    pub fn ctor(&self) -> &'static str {
        match self {
            SOp::Socket { .. } => "new_socket",
            SOp::Connect { .. } => "new_connect_unix",
            SOp::Accept { inet: false, .. } => "new_accept_unix",
            SOp::Accept { inet: true, .. } => "new_accept_inet",
            SOp::Sendmsg { raw: false, .. } => "new_sendmsg",
            SOp::Sendmsg { raw: true, .. } => "new_sendmsg_raw",
            SOp::Recvmsg { .. } => "new_recvmsg",
            SOp::PollAdd { .. } => "new_poll_add",
            SOp::Close { .. } => "new_close",
        }
    }
}

struct Lane {
    dir: String,
    /// address of the unix listener: a path, or an abstract name (leading NUL)
    srv: Vec<u8>,
    ulisten: i32,
    ilisten: i32,
    iport: u16,
    file: i32,
    slots: Vec<Option<i32>>,
    /// bytes handed to sendmsg per slot (bound on what can sit in socket buffers)
    sent: Vec<usize>,
    ipending: usize,
    /// inet client and accepted sockets: only closed at the end
    extra: Vec<i32>,
}

struct World {
    prefix: String,
    lanes: Vec<Lane>,
}

fn sun(path: &[u8]) -> (libc::sockaddr_un, libc::socklen_t) {
    let mut s: libc::sockaddr_un = unsafe { core::mem::zeroed() };
    s.sun_family = libc::AF_UNIX as u16;
    for (i, c) in path.iter().enumerate().take(107) {
        s.sun_path[i] = *c as libc::c_char;
    }
    // abstract names (leading NUL) are exactly as long as the address length says; paths end at their NUL
    let extra = usize::from(path.first() != Some(&0));
    (s, (2 + path.len() + extra) as libc::socklen_t)
}

impl World {
    fn create(prefix: &str, inet: bool, abstract_listener: bool) -> World {
        static NAMES: std::sync::atomic::AtomicU64 = std::sync::atomic::AtomicU64::new(0);
        let mut lanes = Vec::new();
        for k in 0..NL {
            let dir = format!("{prefix}/l{k}");
            std::fs::create_dir_all(&dir).unwrap();
            sys::empty_dir(std::path::Path::new(&dir), &["d0"]);
            std::fs::write(format!("{dir}/passme"), format!("lane {k} file\n")).unwrap();
            unsafe {
                let c = sys::cstr(format!("{dir}/passme").as_bytes());
                let file = libc::open(c.as_ptr(), libc::O_RDONLY);
                assert!(file >= 0);
                let ulisten = libc::socket(libc::AF_UNIX, libc::SOCK_STREAM, 0);
                let srv: Vec<u8> = if abstract_listener {
                    format!("\0vc18-{}-{}-{}", std::process::id(), NAMES.fetch_add(1, std::sync::atomic::Ordering::Relaxed), k).into_bytes()
                } else {
                    format!("{dir}/srv").into_bytes()
                };
                let (sa, sl) = sun(&srv);
                assert_eq!(0, libc::bind(ulisten, (&sa as *const libc::sockaddr_un).cast(), sl), "harness: bind");
                assert_eq!(0, libc::listen(ulisten, 128));
                let mut ilisten = -1;
                let mut iport = 0;
                if inet {
                    ilisten = libc::socket(libc::AF_INET, libc::SOCK_STREAM, 0);
                    let mut sin: libc::sockaddr_in = core::mem::zeroed();
                    sin.sin_family = libc::AF_INET as u16;
                    sin.sin_addr.s_addr = u32::from_ne_bytes([127, 0, 0, 1]);
                    let ok = libc::bind(ilisten, (&sin as *const libc::sockaddr_in).cast(), 16) == 0 && libc::listen(ilisten, 128) == 0;
                    let mut sl: libc::socklen_t = 16;
                    if ok && libc::getsockname(ilisten, (&mut sin as *mut libc::sockaddr_in).cast(), &mut sl) == 0 {
                        iport = u16::from_be(sin.sin_port);
                    } else {
                        sys::close_quiet(ilisten);
                        ilisten = -1;
                    }
                }
                lanes.push(Lane { dir, srv, ulisten, ilisten, iport, file, slots: Vec::new(), sent: Vec::new(), ipending: 0, extra: Vec::new() });
            }
        }
        World { prefix: prefix.to_string(), lanes }
    }

    fn close_all(&mut self) {
        for l in self.lanes.iter_mut() {
            for fd in [&mut l.ulisten, &mut l.ilisten, &mut l.file] {
                sys::close_quiet(*fd);
                *fd = -1;
            }
            for s in l.slots.iter_mut() {
                if let Some(fd) = s.take() {
                    sys::close_quiet(fd);
                }
            }
            for fd in l.extra.drain(..) {
                sys::close_quiet(fd);
            }
        }
    }

    /// A new client connects directly; returns the client descriptor.
    fn direct_connect(&mut self, lane: usize, inet: bool) -> i32 {
        let l = &mut self.lanes[lane];
        unsafe {
            if inet {
                let c = libc::socket(libc::AF_INET, libc::SOCK_STREAM, 0);
                let mut sin: libc::sockaddr_in = core::mem::zeroed();
                sin.sin_family = libc::AF_INET as u16;
                sin.sin_port = l.iport.to_be();
                sin.sin_addr.s_addr = u32::from_ne_bytes([127, 0, 0, 1]);
                let r = libc::connect(c, (&sin as *const libc::sockaddr_in).cast(), 16);
                assert_eq!(0, r, "harness: loopback connect failed: {}", sys::errno());
                l.ipending += 1;
                l.extra.push(c);
                c
            } else {
                let c = libc::socket(libc::AF_UNIX, libc::SOCK_STREAM, 0);
                let (sa, sl) = sun(&l.srv);
                let r = libc::connect(c, (&sa as *const libc::sockaddr_un).cast(), sl);
                assert_eq!(0, r, "harness: unix connect failed: {}", sys::errno());
                l.slots.push(Some(c));
                l.sent.push(0);
                c
            }
        }
    }
}

/// Connection structure, identical for both worlds (slot indices coincide).
///
/// Closing a socket releases it asynchronously (deferred `fput`, for the ring possibly on a
/// worker thread), so *when* its peer sees the hang-up is not defined relative to the next
/// entry or batch. A socket whose peer has been closed is therefore retired: later references
/// to it resolve to a descriptor that is never open.
#[derive(Default)]
struct LaneModel {
    /// unix connections waiting in the listener's queue: the client's slot
    upq: std::collections::VecDeque<Option<usize>>,
    peer: Vec<Option<usize>>,
    dead: Vec<bool>,
}

#[derive(Debug, Clone, Copy, PartialEq, Eq)]
enum Sel {
    Slot(usize),
    Bad(u8),
    UListener,
    File,
}

#[derive(Debug, Clone, PartialEq, Eq)]
enum Expect {
    Exact(i32),
    NewFd(i32),
    Cancelled,
}

/// Memory referenced by one entry. `guard` borrows `ios`/`fds`; declared first, dropped first.
#[derive(Default)]
struct Mem {
    guard: Option<SendDropGuard<'static>>,
    rawhdr: Option<Box<MsgHdr>>,
    chdr: Option<Box<libc::msghdr>>,
    ios: Vec<IoSlice<'static>>,
    bufs: Vec<Vec<u8>>,
    iov: Vec<libc::iovec>,
    ctrl: Vec<u64>,
    fds: Vec<Fd>,
    abuf: Vec<u8>,
    alen: Vec<u64>,
    sockarg: Option<Box<SocketArgUnix>>,
    csun: Option<Box<(libc::sockaddr_un, libc::socklen_t)>>,
    path: Option<UnixString>,
}

struct Entry {
    lane: usize,
    pos: usize,
    last: bool,
    op: SOp,
    a: bool,
    sel: Option<Sel>,
    /// message flags after the reference world's decisions
    mflags: i32,
    ev: u16,
    exp: Expect,
    mem_a: Mem,
    mem_b: Mem,
    ud: u64,
    /// for a unix accept that succeeded in the reference world: the client it was paired with
    client: Option<usize>,
}

#[derive(Default)]
struct Stats {
    kinds: std::collections::BTreeSet<&'static str>,
    multi_kind: bool,
    chain: bool,
    cancelled: bool,
    failing: bool,
    data_moved: bool,
    fd_passed: bool,
    accepted: bool,
    accept_addr: bool,
    accept_inet: bool,
    connected: bool,
    multi_lane: bool,
    eagain: bool,
}

struct Engine {
    s: Session,
    a: World,
    b: World,
    inet: bool,
    ud_next: u64,
    fds_at_start: usize,
    st: Stats,
    model: Vec<LaneModel>,
    ring_connect: bool,
    accept_addr: bool,
}

const CTRL_WORDS: usize = 16; // 128 bytes of control buffer

fn msg_flags(fl: u8) -> i32 {
    let mut f = 0;
    if fl & 1 != 0 {
        f |= libc::MSG_DONTWAIT;
    }
    if fl & 2 != 0 {
        f |= libc::MSG_NOSIGNAL;
    }
    f
}

fn parse_cmsgs(ctrl: &[u64], controllen: usize) -> Vec<(i32, i32, Vec<i32>)> {
    // cmsghdr: len usize, level i32, type i32, data; aligned to 8
    let bytes: &[u8] = unsafe { core::slice::from_raw_parts(ctrl.as_ptr().cast(), ctrl.len() * 8) };
    let mut out = Vec::new();
    let mut off = 0usize;
    let end = controllen.min(bytes.len());
    while off + 16 <= end {
        let len = usize::from_ne_bytes(bytes[off..off + 8].try_into().unwrap());
        let level = i32::from_ne_bytes(bytes[off + 8..off + 12].try_into().unwrap());
        let ty = i32::from_ne_bytes(bytes[off + 12..off + 16].try_into().unwrap());
        if len < 16 || off + len > end {
            break;
        }
        let data = &bytes[off + 16..off + len];
        let ints: Vec<i32> = data.chunks_exact(4).map(|c| i32::from_ne_bytes(c.try_into().unwrap())).collect();
        out.push((level, ty, ints));
        off += (len + 7) & !7;
    }
    out
}

impl Engine {
    fn cleanup(&mut self) {
        self.a.close_all();
        self.b.close_all();
        self.s.finish();
    }

    fn resolve(&self, lane: usize, r: SRef, nslots: usize) -> Sel {
        match r {
            SRef::Bad => Sel::Bad(0),
            SRef::Listener => Sel::UListener,
            SRef::File => Sel::File,
            SRef::Slot(i) => {
                if nslots == 0 {
                    return Sel::Bad(2);
                }
                let idx = i as usize % nslots;
                if self.model[lane].dead[idx] {
                    Sel::Bad(4)
                } else if self.b.lanes[lane].slots[idx].is_some() {
                    Sel::Slot(idx)
                } else {
                    Sel::Bad(3)
                }
            }
        }
    }

    fn fd_num(w: &World, lane: usize, s: Sel) -> i32 {
        let l = &w.lanes[lane];
        match s {
            Sel::Slot(i) => l.slots[i].expect("resolved slot is open"),
            Sel::Bad(k) => sys::bad_fd(k),
            Sel::UListener => l.ulisten,
            Sel::File => l.file,
        }
    }

    fn connect_path(w: &World, lane: usize, to: u8) -> Vec<u8> {
        let l = &w.lanes[lane];
        match to % 3 {
            0 => l.srv.clone(),
            1 => format!("{}/nosuch", l.dir).into_bytes(),
            _ => format!("{}/passme", l.dir).into_bytes(),
        }
    }

    fn build_mem(w: &World, lane: usize, op: &SOp, for_a: bool) -> Mem {
        let mut m = Mem::default();
        match op {
            SOp::Connect { to, .. } => {
                let p = Self::connect_path(w, lane, *to);
                if for_a && p.first() == Some(&0) {
                    // an abstract address comes out of the public API as what getsockname reports for the listener
                    let arg = rusl::network::get_unix_sock_name(rfd(w.lanes[lane].ulisten)).expect("getsockname on the harness listener");
                    m.sockarg = Some(Box::new(arg));
                } else if for_a {
                    let us = UnixString::try_from_bytes(&p).unwrap();
                    let arg = SocketAddressUnix::try_from_unix(&us).expect("generated socket path fits");
                    m.sockarg = Some(Box::new(arg));
                    m.path = Some(us);
                } else {
                    m.csun = Some(Box::new(sun(&p)));
                }
            }
            SOp::Accept { inet, addr, .. } => {
                if *addr {
                    // generously padded: a misdirected kernel write must not hit anything else
                    m.abuf = vec![0u8; 4096];
                    m.alen = vec![0u64; 512];
                    m.alen[0] = if *inet { 16 } else { 110 };
                }
            }
            SOp::Sendmsg { lens, fill, pass_fd, .. } => {
                for (i, &l) in lens.iter().enumerate() {
                    m.bufs.push((0..l as usize).map(|j| (j as u8).wrapping_mul(5).wrapping_add(*fill).wrapping_add(i as u8 * 17)).collect());
                }
                for b in m.bufs.iter_mut() {
                    m.iov.push(libc::iovec { iov_base: b.as_mut_ptr().cast(), iov_len: b.len() });
                }
                m.ctrl = vec![0u64; CTRL_WORDS];
                if *pass_fd {
                    m.fds = vec![rfd(w.lanes[lane].file)];
                }
            }
            SOp::Recvmsg { lens, ctrl, .. } => {
                for &l in lens {
                    m.bufs.push(vec![0xAA; l as usize]);
                }
                for b in m.bufs.iter_mut() {
                    m.iov.push(libc::iovec { iov_base: b.as_mut_ptr().cast(), iov_len: b.len() });
                }
                if *ctrl {
                    m.ctrl = vec![0u64; CTRL_WORDS];
                }
            }
            _ => {}
        }
        m
    }

    /// libc msghdr over the entry's memory (world B; also used to read back results).
    fn c_msghdr(m: &mut Mem, send: bool, pass_fd: bool) -> Box<libc::msghdr> {
        let mut h: libc::msghdr = unsafe { core::mem::zeroed() };
        h.msg_iov = m.iov.as_mut_ptr();
        h.msg_iovlen = m.iov.len();
        if send {
            if pass_fd {
                unsafe {
                    h.msg_control = m.ctrl.as_mut_ptr().cast();
                    h.msg_controllen = libc::CMSG_SPACE(4) as usize;
                    let c = libc::CMSG_FIRSTHDR(&h);
                    (*c).cmsg_level = libc::SOL_SOCKET;
                    (*c).cmsg_type = libc::SCM_RIGHTS;
                    (*c).cmsg_len = libc::CMSG_LEN(4) as usize;
                    *(libc::CMSG_DATA(c) as *mut i32) = m.fds[0].value();
                }
            }
        } else if !m.ctrl.is_empty() {
            h.msg_control = m.ctrl.as_mut_ptr().cast();
            h.msg_controllen = m.ctrl.len() * 8;
        }
        Box::new(h)
    }

    #[allow(clippy::too_many_arguments)]
    fn exec_b(&mut self, lane: usize, op: &SOp, sel: &mut Option<Sel>, mflags: &mut i32, ev: &mut u16, mem: &mut Mem, client: &mut Option<usize>) -> (Expect, bool) {
        unsafe {
            match op {
                SOp::Socket { dom, ty, nb, ce, proto } => {
                    let d = [libc::AF_UNIX, libc::AF_INET, libc::AF_INET6, 46][*dom as usize % 4];
                    let mut t = [libc::SOCK_STREAM, libc::SOCK_DGRAM, libc::SOCK_SEQPACKET, libc::SOCK_RDM][*ty as usize % 4];
                    if *nb {
                        t |= libc::SOCK_NONBLOCK;
                    }
                    if *ce {
                        t |= libc::SOCK_CLOEXEC;
                    }
                    let p = [0, 6, 17, 99][*proto as usize % 4];
                    let r = sys::ret(libc::socket(d, t, p) as i64);
                    if r >= 0 {
                        (Expect::NewFd(r), false)
                    } else {
                        (Expect::Exact(r), true)
                    }
                }
                SOp::Connect { to, .. } => {
                    // never fill a backlog: a blocking connect would wait for an accept
                    if *to % 3 == 0 && self.model[lane].upq.len() >= 48 {
                        *sel = Some(Sel::Bad(7));
                    }
                    let s = sel.unwrap();
                    let fd = Self::fd_num(&self.b, lane, s);
                    let (sa, sl) = &**mem.csun.as_ref().unwrap();
                    let r = sys::ret(libc::connect(fd, (sa as *const libc::sockaddr_un).cast(), *sl) as i64);
                    if r == 0 {
                        self.model[lane].upq.push_back(if let Sel::Slot(i) = s { Some(i) } else { None });
                        self.st.connected = true;
                    }
                    (Expect::Exact(r), r < 0)
                }
                SOp::Accept { inet, addr, nb, ce } => {
                    let l = &self.b.lanes[lane];
                    let fd = if *inet { l.ilisten } else { l.ulisten };
                    let mut fl = 0;
                    if *nb {
                        fl |= libc::SOCK_NONBLOCK;
                    }
                    if *ce {
                        fl |= libc::SOCK_CLOEXEC;
                    }
                    let r = if *addr {
                        let mut sl: libc::socklen_t = mem.alen[0] as libc::socklen_t;
                        let r = sys::ret(libc::accept4(fd, mem.abuf.as_mut_ptr().cast(), &mut sl, fl) as i64);
                        mem.alen[0] = sl as u64;
                        r
                    } else {
                        sys::ret(libc::accept4(fd, core::ptr::null_mut(), core::ptr::null_mut(), fl) as i64)
                    };
                    if r >= 0 {
                        if *inet {
                            self.b.lanes[lane].ipending -= 1;
                        } else {
                            *client = self.model[lane].upq.pop_front().flatten();
                        }
                        (Expect::NewFd(r), false)
                    } else {
                        (Expect::Exact(r), true)
                    }
                }
                SOp::Sendmsg { pass_fd, .. } => {
                    let s = sel.unwrap();
                    let fd = Self::fd_num(&self.b, lane, s);
                    if let Sel::Slot(i) = s {
                        // never rely on an unbounded socket buffer
                        if self.b.lanes[lane].sent[i] > 48 * 1024 {
                            *mflags |= libc::MSG_DONTWAIT;
                        }
                    }
                    let h = Self::c_msghdr(mem, true, *pass_fd);
                    let r = sys::ret(libc::sendmsg(fd, &*h, *mflags) as i64);
                    mem.chdr = Some(h);
                    if r > 0 {
                        if let Sel::Slot(i) = s {
                            self.b.lanes[lane].sent[i] += r as usize;
                        }
                        self.st.data_moved = true;
                    }
                    if r == -libc::EAGAIN {
                        self.st.eagain = true;
                    }
                    (Expect::Exact(r), r < 0)
                }
                SOp::Recvmsg { .. } => {
                    let s = sel.unwrap();
                    let fd = Self::fd_num(&self.b, lane, s);
                    if *mflags & libc::MSG_DONTWAIT == 0 {
                        let mut p = libc::pollfd { fd, events: libc::POLLIN, revents: 0 };
                        if libc::poll(&mut p, 1, 0) == 0 {
                            // nothing to receive: a blocking receive would never complete
                            *mflags |= libc::MSG_DONTWAIT;
                        }
                    }
                    let mut h = Self::c_msghdr(mem, false, false);
                    let r = sys::ret(libc::recvmsg(fd, &mut *h, *mflags) as i64);
                    mem.chdr = Some(h);
                    if r == -libc::EAGAIN {
                        self.st.eagain = true;
                    }
                    (Expect::Exact(r), r < 0)
                }
                SOp::PollAdd { .. } => {
                    let s = sel.unwrap();
                    let fd = Self::fd_num(&self.b, lane, s);
                    let mut p = libc::pollfd { fd, events: poll_libc(*ev), revents: 0 };
                    let mut r = libc::poll(&mut p, 1, 0);
                    if r == 0 {
                        *ev |= 1 << 2; // POLLOUT
                        p.events = poll_libc(*ev);
                        r = libc::poll(&mut p, 1, 0);
                    }
                    if r == 0 {
                        *sel = Some(Sel::Bad(8));
                        return (Expect::Exact(-libc::EBADF), true);
                    }
                    if p.revents & libc::POLLNVAL != 0 {
                        (Expect::Exact(-libc::EBADF), true)
                    } else {
                        (Expect::Exact(p.revents as i32), false)
                    }
                }
                SOp::Close { .. } => {
                    let s = sel.unwrap();
                    let fd = Self::fd_num(&self.b, lane, s);
                    let r = sys::ret(libc::close(fd) as i64);
                    if r == 0 {
                        if let Sel::Slot(i) = s {
                            self.b.lanes[lane].slots[i] = None;
                            if let Some(j) = self.model[lane].peer[i] {
                                self.model[lane].dead[j] = true;
                            }
                        }
                    }
                    (Expect::Exact(r), r < 0)
                }
            }
        }
    }

    fn build_sqe(&self, e: &mut Entry) -> IoUringSubmissionQueueEntry {
        let lane = e.lane;
        let mut fl = IoUringSQEFlags::empty();
        if !e.last {
            fl |= IoUringSQEFlags::IOSQE_IO_LINK;
        }
        if e.a {
            fl |= IoUringSQEFlags::IOSQE_ASYNC;
        }
        let ud = e.ud;
        let fdn = |s: Sel| rfd(Self::fd_num(&self.a, lane, s));
        unsafe {
            match &e.op {
                SOp::Socket { dom, ty, nb, ce, proto } => {
                    let d = [AddressFamily::AF_UNIX, AddressFamily::AF_INET, AddressFamily::AF_INET6, AddressFamily::AF_MAX][*dom as usize % 4];
                    let t = [SocketType::SOCK_STREAM, SocketType::SOCK_DGRAM, SocketType::SOCK_SEQPACKET, SocketType::SOCK_RDM][*ty as usize % 4];
                    let mut sf = SocketFlags::empty();
                    if *nb {
                        sf |= SocketFlags::SOCK_NONBLOCK;
                    }
                    if *ce {
                        sf |= SocketFlags::SOCK_CLOEXEC;
                    }
                    let p = [0u32, 6, 17, 99][*proto as usize % 4];
                    IoUringSubmissionQueueEntry::new_socket(d, SocketOptions::new(t, sf), p, ud, fl)
                }
                SOp::Connect { .. } => IoUringSubmissionQueueEntry::new_connect_unix(fdn(e.sel.unwrap()), e.mem_a.sockarg.as_ref().unwrap(), ud, fl),
                SOp::Accept { inet, addr, nb, ce } => {
                    let mut sf = SocketFlags::empty();
                    if *nb {
                        sf |= SocketFlags::SOCK_NONBLOCK;
                    }
                    if *ce {
                        sf |= SocketFlags::SOCK_CLOEXEC;
                    }
                    let (ap, lp): (*mut u8, *mut u64) = if *addr { (e.mem_a.abuf.as_mut_ptr(), e.mem_a.alen.as_mut_ptr()) } else { (core::ptr::null_mut(), core::ptr::null_mut()) };
                    let l = &self.a.lanes[lane];
                    if *inet {
                        IoUringSubmissionQueueEntry::new_accept_inet(rfd(l.ilisten), ap.cast::<SocketAddressInet>(), lp, sf, ud, fl)
                    } else {
                        IoUringSubmissionQueueEntry::new_accept_unix(rfd(l.ulisten), ap.cast::<SocketAddressUnix>(), lp, sf, ud, fl)
                    }
                }
                SOp::Sendmsg { pass_fd, raw, .. } => {
                    let fd = fdn(e.sel.unwrap());
                    let m = &mut e.mem_a;
                    if *raw {
                        let ctrl = if *pass_fd { Some(ControlMessageRaw::ScmRights(m.fds.as_mut_ptr(), 1)) } else { None };
                        let h = MsgHdr::create_send(m.iov.as_mut_ptr().cast(), m.iov.len(), ctrl, m.ctrl.as_mut_ptr().cast());
                        m.rawhdr = Some(Box::new(h));
                        IoUringSubmissionQueueEntry::new_sendmsg_raw(fd, &**m.rawhdr.as_ref().unwrap() as *const MsgHdr, e.mflags, ud, fl)
                    } else {
                        for b in &m.bufs {
                            let s: &'static [u8] = core::slice::from_raw_parts(b.as_ptr(), b.len());
                            m.ios.push(IoSlice::new(s));
                        }
                        let ios: &'static [IoSlice<'static>] = core::slice::from_raw_parts(m.ios.as_ptr(), m.ios.len());
                        let fds: &'static [Fd] = core::slice::from_raw_parts(m.fds.as_ptr(), m.fds.len());
                        let ctrl = if *pass_fd { Some(ControlMessageSend::ScmRights(fds)) } else { None };
                        m.guard = Some(MsgHdrBorrow::create_send(None, ios, ctrl));
                        IoUringSubmissionQueueEntry::new_sendmsg(fd, m.guard.as_ref().unwrap(), e.mflags, ud, fl)
                    }
                }
                SOp::Recvmsg { .. } => {
                    let fd = fdn(e.sel.unwrap());
                    let m = &mut e.mem_a;
                    let h = MsgHdr {
                        msg_name: core::ptr::null(),
                        msg_namelen: 0,
                        msg_iov: m.iov.as_mut_ptr().cast(),
                        msg_iovlen: m.iov.len(),
                        msg_control: if m.ctrl.is_empty() { core::ptr::null_mut() } else { m.ctrl.as_mut_ptr().cast() },
                        msg_controllen: m.ctrl.len() * 8,
                        msg_flags: 0,
                    };
                    m.rawhdr = Some(Box::new(h));
                    IoUringSubmissionQueueEntry::new_recvmsg(fd, &mut **m.rawhdr.as_mut().unwrap() as *mut MsgHdr, e.mflags, ud, fl)
                }
                SOp::PollAdd { .. } => IoUringSubmissionQueueEntry::new_poll_add(fdn(e.sel.unwrap()), poll_rusl(e.ev), PollAddMultiFlags::empty(), ud, fl),
                SOp::Close { .. } => IoUringSubmissionQueueEntry::new_close(fdn(e.sel.unwrap()), ud, fl),
            }
        }
    }

    /// Harness action: a new client connects directly, in both worlds.
    fn direct_connect(&mut self, lane: usize, inet: bool) {
        self.a.direct_connect(lane, inet);
        self.b.direct_connect(lane, inet);
        if !inet {
            let m = &mut self.model[lane];
            m.upq.push_back(Some(m.peer.len()));
            m.peer.push(None);
            m.dead.push(false);
        }
    }

    fn normalise(&self, chains: &[SChain]) -> Vec<(usize, Vec<SOpG>)> {
        let cap = self.s.sq_entries as usize;
        let pr = ring::probe();
        let mut used = [false; NL];
        let mut out = Vec::new();
        let mut total = 0usize;
        for ch in chains {
            if total >= cap {
                break;
            }
            let mut lane = ch.lane as usize % NL;
            let mut tries = 0;
            while used[lane] && tries < NL {
                lane = (lane + 1) % NL;
                tries += 1;
            }
            if used[lane] {
                break;
            }
            let mut ops: Vec<SOpG> = Vec::new();
            for g in &ch.ops {
                if total + ops.len() >= cap {
                    break;
                }
                if pr.unsupported_ops.iter().any(|k| k == g.op.kind()) {
                    continue;
                }
                let mut g = g.clone();
                if let SOp::Accept { inet, addr, .. } = &mut g.op {
                    if !self.inet {
                        *inet = false;
                    }
                    if !self.accept_addr {
                        *addr = false;
                    }
                }
                if matches!(g.op, SOp::Connect { .. }) && !self.ring_connect {
                    continue;
                }
                ops.push(g);
            }
            if ops.is_empty() {
                continue;
            }
            let n = ops.len();
            let mut cut = n;
            for (i, g) in ops.iter().enumerate() {
                if i + 1 < n && pr.rule(g.op.kind()) == LinkRule::Unknown {
                    cut = cut.min(i + 1);
                }
            }
            ops.truncate(cut);
            used[lane] = true;
            total += ops.len();
            out.push((lane, ops));
        }
        out
    }

    fn run_batch(&mut self, bi: usize, chains: &[SChain]) -> Result<(), Failure> {
        let chains = self.normalise(chains);
        if chains.is_empty() {
            return Ok(());
        }
        // every accept needs a pending connection (harness connects directly in both worlds)
        for (lane, ops) in &chains {
            for inet in [false, true] {
                let need = ops.iter().filter(|g| matches!(g.op, SOp::Accept { inet: i, .. } if i == inet)).count();
                loop {
                    let have = if inet { self.b.lanes[*lane].ipending } else { self.model[*lane].upq.len() };
                    if have >= need {
                        break;
                    }
                    self.direct_connect(*lane, inet);
                }
            }
        }
        let nslots: Vec<usize> = self.b.lanes.iter().map(|l| l.slots.len()).collect();
        let mut entries: Vec<Entry> = Vec::new();
        for (lane, ops) in &chains {
            let mut severed = false;
            let n = ops.len();
            for (pos, g) in ops.iter().enumerate() {
                let op = g.op.clone();
                let sref = match &op {
                    SOp::Connect { sock, .. } | SOp::Sendmsg { sock, .. } | SOp::Recvmsg { sock, .. } | SOp::PollAdd { sock, .. } | SOp::Close { sock } => Some(*sock),
                    _ => None,
                };
                let mut sel = sref.map(|r| self.resolve(*lane, r, nslots[*lane]));
                if let SOp::Close { .. } = op {
                    if !matches!(sel, Some(Sel::Slot(_))) {
                        sel = Some(Sel::Bad(5));
                    }
                }
                let mut mflags = match &op {
                    SOp::Sendmsg { fl, .. } => msg_flags(*fl),
                    SOp::Recvmsg { dontwait, peek, .. } => (if *dontwait { libc::MSG_DONTWAIT } else { 0 }) | (if *peek { libc::MSG_PEEK } else { 0 }),
                    _ => 0,
                };
                let mut ev = if let SOp::PollAdd { ev, .. } = &op { *ev } else { 0 };
                let ud = self.ud_next;
                self.ud_next += 1;
                let mut mem_b = Self::build_mem(&self.b, *lane, &op, false);
                let mut client = None;
                let exp = if severed {
                    Expect::Cancelled
                } else {
                    let (exp, failed) = self.exec_b(*lane, &op, &mut sel, &mut mflags, &mut ev, &mut mem_b, &mut client);
                    if failed {
                        self.st.failing = true;
                        if ring::probe().rule(op.kind()) == LinkRule::Breaks {
                            severed = true;
                        }
                    }
                    exp
                };
                if exp == Expect::Cancelled {
                    self.st.cancelled = true;
                }
                let mem_a = Self::build_mem(&self.a, *lane, &op, true);
                entries.push(Entry { lane: *lane, pos, last: pos + 1 == n, op, a: g.a, sel, mflags, ev, exp, mem_a, mem_b, ud, client });
            }
        }
        {
            let mut kinds: Vec<&'static str> = entries.iter().map(|e| e.op.kind()).collect();
            for k in &kinds {
                self.st.kinds.insert(k);
            }
            kinds.sort();
            kinds.dedup();
            self.st.multi_kind |= kinds.len() >= 2;
            self.st.chain |= chains.iter().any(|(_, o)| o.len() >= 2);
            self.st.multi_lane |= chains.len() >= 2;
        }
        let mut sqes = Vec::with_capacity(entries.len());
        for e in entries.iter_mut() {
            let name = e.op.ctor();
            let ud = e.ud;
            let sqe = vh::runner::no_panic(name, || self.build_sqe(e))?;
            sqes.push(Sqe::Rusl(sqe, ud));
        }
        let cq = match self.s.run(sqes) {
            Ok(cq) => cq,
            Err(mut f) => {
                if f.sig.contains("missing-cqe") {
                    f.what.push_str(&format!("; entries of the batch (user_data, entry): {:x?}", entries.iter().map(|e| (e.ud, format!("{:?}", e.op))).collect::<Vec<_>>()));
                }
                // entries may still be in flight: the memory they reference must outlive them
                std::mem::forget(entries);
                return Err(f);
            }
        };
        // ---- results; the root cause of a mismatch is the first entry that is neither as
        // expected nor merely cancelled
        let mut mism: Vec<(usize, i32)> = Vec::new();
        for (i, e) in entries.iter().enumerate() {
            let res = cq.iter().find(|c| c.0 == e.ud).unwrap().1;
            let ok = match &e.exp {
                Expect::Exact(v) => {
                    if let SOp::PollAdd { .. } = e.op {
                        // io_uring always reports POLLRDHUP, poll(2) only on request
                        let m = !(libc::POLLRDHUP as i32);
                        res == *v || (res >= 0 && *v >= 0 && (res & m) == (*v & m))
                    } else {
                        res == *v
                    }
                }
                Expect::Cancelled => res == -sys::ECANCELED,
                Expect::NewFd(_) => res >= 0,
            };
            if !ok {
                mism.push((i, res));
            }
        }
        let adopt = self.adopt(&entries, &cq);
        if !mism.is_empty() {
            let (i, res, before_issue) = root_cause(&mism, |i| (entries[i].lane, entries[i].pos), |i| cq.iter().find(|c| c.0 == entries[i].ud).unwrap().1, entries.len());
            let e = &entries[i];
            let (exp_s, class) = match &e.exp {
                Expect::Exact(v) if res >= 0 && *v >= 0 => (show(*v), "value-differs".to_string()),
                Expect::Exact(v) => (show(*v), format!("ring={} direct={}", cls(res), cls(*v))),
                Expect::Cancelled => ("-ECANCELED (an earlier entry of the link chain failed)".to_string(), "not-cancelled".to_string()),
                Expect::NewFd(_) => ("a new descriptor".to_string(), format!("ring={} direct=fd", cls(res))),
            };
            let class = if before_issue {
                "failed-before-issue".to_string()
            } else if res == -sys::ECANCELED && e.exp != Expect::Cancelled {
                "cancelled".to_string()
            } else {
                class
            };
            let note = if before_issue { "; earlier entries of its chain were cancelled although they come first: the kernel rejected this entry when the chain was submitted, not when it was its turn" } else { "" };
            return Err(Failure::new(
                format!("{}|res-mismatch|{}", e.op.ctor(), class),
                format!("step {bi}, lane {}, chain position {}{}: {:?} completed with res {} through the ring; the direct call gives {}{}", e.lane, e.pos, if e.last { " (last)" } else { " (linked)" }, e.op, show(res), exp_s, note),
            ));
        }
        adopt?;
        // ---- memory written by the kernel
        for e in entries.iter() {
            let res = cq.iter().find(|c| c.0 == e.ud).unwrap().1;
            match &e.op {
                SOp::Accept { inet, addr: true, .. } if res >= 0 => {
                    self.st.accept_addr = true;
                    let blen = e.mem_b.alen[0] as usize;
                    let mut a = e.mem_a.abuf.clone();
                    let mut b = e.mem_b.abuf.clone();
                    if *inet {
                        // ephemeral client ports differ between the worlds
                        for x in [&mut a, &mut b] {
                            x[2] = 0;
                            x[3] = 0;
                        }
                    }
                    if e.mem_a.alen != e.mem_b.alen || a != b {
                        let n = blen.clamp(8, 32);
                        return Err(Failure::new(
                            format!("{}|out-params-mismatch|sockaddr/addr_len", e.op.ctor()),
                            format!("step {bi}: {:?}: accept4(2) stores addr_len {} and address bytes {:02x?}; through the ring addr_len is {} (following words {:x?}) and the address buffer starts {:02x?}", e.op, e.mem_b.alen[0], &b[..n], e.mem_a.alen[0], &e.mem_a.alen[1..3], &a[..n]),
                        ));
                    }
                }
                SOp::Recvmsg { .. } => {
                    if e.mem_a.bufs != e.mem_b.bufs {
                        return Err(Failure::new("new_recvmsg|buffer-mismatch|data", format!("step {bi}: {:?} returned {res} in both worlds but the received bytes differ", e.op)));
                    }
                    if res >= 0 {
                        let ha = e.mem_a.rawhdr.as_ref().unwrap();
                        let hb = e.mem_b.chdr.as_ref().unwrap();
                        let ca = parse_cmsgs(&e.mem_a.ctrl, ha.msg_controllen);
                        let cb = parse_cmsgs(&e.mem_b.ctrl, hb.msg_controllen);
                        let shape = |c: &Vec<(i32, i32, Vec<i32>)>| c.iter().map(|(l, t, f)| (*l, *t, f.len())).collect::<Vec<_>>();
                        let mut bad = ha.msg_flags != hb.msg_flags || ha.msg_controllen != hb.msg_controllen || shape(&ca) != shape(&cb);
                        let mut detail = format!("msg_flags ring {:#x} direct {:#x}, controllen ring {} direct {}, control ring {:?} direct {:?}", ha.msg_flags, hb.msg_flags, ha.msg_controllen, hb.msg_controllen, shape(&ca), shape(&cb));
                        // received descriptors: same referent, then closed
                        for (x, y) in ca.iter().zip(cb.iter()) {
                            if x.0 == libc::SOL_SOCKET && x.1 == libc::SCM_RIGHTS && y.1 == libc::SCM_RIGHTS {
                                for (fa, fb) in x.2.iter().zip(y.2.iter()) {
                                    let ia = sys::fd_info(*fa, &self.a.prefix);
                                    let ib = sys::fd_info(*fb, &self.b.prefix);
                                    if ia != ib {
                                        bad = true;
                                        detail = format!("passed descriptor refers to {ia:?} through the ring, {ib:?} directly");
                                    }
                                    self.st.fd_passed = true;
                                }
                            }
                        }
                        for c in ca.iter().chain(cb.iter()) {
                            if c.0 == libc::SOL_SOCKET && c.1 == libc::SCM_RIGHTS {
                                for f in &c.2 {
                                    sys::close_quiet(*f);
                                }
                            }
                        }
                        if bad {
                            return Err(Failure::new("new_recvmsg|header-mismatch|flags/control", format!("step {bi}: {:?}: {detail}", e.op)));
                        }
                    }
                }
                SOp::Sendmsg { .. } => {
                    if e.mem_a.bufs != e.mem_b.bufs {
                        return Err(Failure::new("new_sendmsg|buffer-mismatch|source modified", format!("step {bi}: {:?}", e.op)));
                    }
                }
                _ => {}
            }
        }
        // ---- state that follows from successful entries, mirrored into world A
        for e in entries.iter() {
            let res = cq.iter().find(|c| c.0 == e.ud).unwrap().1;
            match (&e.op, e.sel) {
                (SOp::Close { .. }, Some(Sel::Slot(i))) if res == 0 => {
                    if let Some(fd) = self.a.lanes[e.lane].slots[i].take() {
                        let reused = entries.iter().any(|o| matches!(o.op, SOp::Socket { .. } | SOp::Accept { .. }) && cq.iter().find(|c| c.0 == o.ud).unwrap().1 == fd);
                        if !reused && sys::fd_is_open(fd) {
                            sys::close_quiet(fd);
                            return Err(Failure::new("new_close|no-effect|descriptor still open", format!("step {bi}: close of socket {fd} completed with 0 but the descriptor is still open")));
                        }
                    }
                }
                (SOp::Sendmsg { .. }, Some(Sel::Slot(i))) if res > 0 => self.a.lanes[e.lane].sent[i] += res as usize,
                _ => {}
            }
        }
        Ok(())
    }

    fn adopt(&mut self, entries: &[Entry], cq: &[ring::Cqe]) -> Result<(), Failure> {
        let mut result = Ok(());
        for e in entries {
            let (is_sock, is_acc, inet) = match e.op {
                SOp::Socket { .. } => (true, false, false),
                SOp::Accept { inet, .. } => (false, true, inet),
                _ => continue,
            };
            let res = cq.iter().find(|c| c.0 == e.ud).unwrap().1;
            let fa = if res >= 0 { Some(res) } else { None };
            let fb = if let Expect::NewFd(b) = e.exp { Some(b) } else { None };
            match (fa, fb) {
                (Some(a), Some(b)) => {
                    let ia = sys::fd_info(a, &self.a.prefix);
                    let ib = sys::fd_info(b, &self.b.prefix);
                    if ia != ib && result.is_ok() {
                        result = Err(Failure::new(format!("{}|fd-refers-elsewhere|type/flags", e.op.ctor()), format!("{:?}: descriptor from the ring is {:?}, from the direct call {:?}", e.op, ia, ib)));
                    }
                    if is_acc {
                        self.st.accepted = true;
                        self.st.accept_inet |= inet;
                        if inet {
                            self.a.lanes[e.lane].ipending -= 1;
                        }
                    }
                    if is_acc && inet {
                        self.a.lanes[e.lane].extra.push(a);
                        self.b.lanes[e.lane].extra.push(b);
                    } else {
                        let m = &mut self.model[e.lane];
                        let idx = m.peer.len();
                        m.peer.push(e.client);
                        // a connection whose client is already closed (or retired) is born retired
                        let client_gone = is_acc && match e.client {
                            Some(c) => self.b.lanes[e.lane].slots[c].is_none() || m.dead[c],
                            None => true,
                        };
                        m.dead.push(client_gone);
                        if let Some(c) = e.client {
                            m.peer[c] = Some(idx);
                        }
                        for (w, fd) in [(&mut self.a, a), (&mut self.b, b)] {
                            w.lanes[e.lane].slots.push(Some(fd));
                            w.lanes[e.lane].sent.push(0);
                        }
                    }
                    let _ = is_sock;
                }
                (Some(a), None) => sys::close_quiet(a),
                (None, Some(b)) => {
                    sys::close_quiet(b);
                }
                (None, None) => {}
            }
        }
        result
    }

    fn finish(&mut self) -> Result<(), Failure> {
        self.a.close_all();
        self.b.close_all();
        let leak = sys::open_fd_count() as i64 - self.fds_at_start as i64 - 1;
        let ta = sys::snapshot(&PathBuf::from(&self.a.prefix));
        let tb = sys::snapshot(&PathBuf::from(&self.b.prefix));
        if let Some(d) = sys::tree_diff(&ta, &tb) {
            return Err(Failure::new("ring-world|tree-mismatch|after all batches", d));
        }
        if leak != 0 {
            return Err(Failure::new("ring-world|descriptor-leak|after all batches", format!("{leak} more descriptors open than at the start of the case (ring excluded)")));
        }
        Ok(())
    }
}

/// Which entry to blame for a batch with mismatches `(index, res)`: the first one whose result is
/// not merely an unexpected cancellation; if there are only unexpected cancellations, a later
/// entry of the same chain that failed on its own (it was rejected at submission, which takes
/// the whole chain down); else the first mismatch. Returns (index, its res, rejected-before-issue).
pub fn root_cause(mism: &[(usize, i32)], chain_pos: impl Fn(usize) -> (usize, usize), res_of: impl Fn(usize) -> i32, n: usize) -> (usize, i32, bool) {
    if let Some(&(i, r)) = mism.iter().find(|(_, r)| *r != -sys::ECANCELED) {
        return (i, r, false);
    }
    let (i0, r0) = mism[0];
    let (lane, pos) = chain_pos(i0);
    for j in 0..n {
        let (l, p) = chain_pos(j);
        let r = res_of(j);
        if l == lane && p > pos && r < 0 && r != -sys::ECANCELED {
            return (j, r, true);
        }
    }
    (i0, r0, false)
}

fn cls(v: i32) -> String {
    if v >= 0 {
        "ok".to_string()
    } else {
        errname(v)
    }
}

fn show(v: i32) -> String {
    if v >= 0 {
        format!("{v}")
    } else {
        format!("{v} ({})", errname(v))
    }
}

pub fn run_case(ctx: &Ctx, case: &SockCase) -> CaseResult {
    let root = case_root(ctx);
    std::fs::create_dir_all(&root).unwrap();
    let fds_at_start = sys::open_fd_count();
    let s = match Session::new(case.cfg) {
        Ok(s) => s,
        Err(e) => {
            if ring::probe().accepts(&case.cfg) {
                return Err(Failure::new("setup_io_uring|error|accepted flag set", format!("setup_io_uring({}, {}) failed: {e}", case.cfg.entries, case.cfg.flag_name())));
            }
            ctx.inconclusive();
            return Ok(CaseReport::new());
        }
    };
    let inet = inet_available();
    let a = World::create(&format!("{}/A", root.display()), inet, case.abstract_listener);
    let b = World::create(&format!("{}/B", root.display()), inet, case.abstract_listener);
    let inet = inet && a.lanes.iter().chain(b.lanes.iter()).all(|l| l.ilisten >= 0);
    let mut e = Engine { s, a, b, inet, ud_next: 0x2_0000, fds_at_start, st: Stats::default(), model: (0..NL).map(|_| LaneModel::default()).collect(), ring_connect: case.ring_connect, accept_addr: case.accept_addr };
    // every lane starts with one established connection: slot 0 the client, slot 1 the accepted end
    for l in 0..NL {
        e.direct_connect(l, false);
        e.model[l].upq.pop_front();
        for w in [&mut e.a, &mut e.b] {
            let fd = unsafe { libc::accept4(w.lanes[l].ulisten, core::ptr::null_mut(), core::ptr::null_mut(), 0) };
            assert!(fd >= 0, "harness: accept of the initial connection failed");
            w.lanes[l].slots.push(Some(fd));
            w.lanes[l].sent.push(0);
        }
        e.model[l].peer[0] = Some(1);
        e.model[l].peer.push(Some(0));
        e.model[l].dead.push(false);
    }
    let mut res: Result<(), Failure> = Ok(());
    for (i, st) in case.steps.iter().enumerate() {
        match st {
            Step::Batch(chains) => res = e.run_batch(i, chains),
            Step::DirectConnect { lane } => {
                let l = *lane as usize % NL;
                if e.model[l].upq.len() < 48 {
                    e.direct_connect(l, false);
                }
            }
        }
        if res.is_err() {
            break;
        }
    }
    if res.is_ok() {
        res = e.finish();
    }
    let submitted = e.s.submitted;
    let sq = e.s.sq_entries as u64;
    e.cleanup();
    res?;
    let st = &e.st;
    let mut rep = CaseReport::new();
    rep.nontrivial_if(st.multi_kind || st.chain);
    for k in &st.kinds {
        rep.class(match *k {
            "socket" => "op-socket",
            "connect" => "op-connect",
            "accept" => "op-accept",
            "sendmsg" => "op-sendmsg",
            "recvmsg" => "op-recvmsg",
            "poll_add" => "op-poll-add",
            _ => "op-close",
        });
    }
    rep.class_if(st.chain, "link-chain");
    rep.class_if(st.cancelled, "chain-entries-cancelled");
    rep.class_if(st.failing, "failing-entry");
    rep.class_if(st.data_moved, "bytes-transferred");
    rep.class_if(st.fd_passed, "descriptor-passed");
    rep.class_if(st.accepted, "connection-accepted");
    rep.class_if(st.accept_addr, "accept-with-address");
    rep.class_if(case.abstract_listener, "abstract-unix-listener");
    rep.class_if(case.abstract_listener && case.ring_connect && st.connected, "connect-to-abstract-address-through-the-ring");
    rep.class_if(st.accept_inet, "accept-inet");
    rep.class_if(st.connected, "connect-succeeded");
    rep.class_if(st.multi_lane, "independent-chains");
    rep.class_if(st.eagain, "would-block");
    rep.class_if(submitted >= 4 * sq, "ring-cycled-4x");
    rep.class_if(case.cfg.sqpoll, "sqpoll");
    Ok(rep)
}

fn inet_available() -> bool {
    static AVAIL: std::sync::OnceLock<bool> = std::sync::OnceLock::new();
    *AVAIL.get_or_init(|| unsafe {
        let s = libc::socket(libc::AF_INET, libc::SOCK_STREAM, 0);
        if s < 0 {
            return false;
        }
        let mut sin: libc::sockaddr_in = core::mem::zeroed();
        sin.sin_family = libc::AF_INET as u16;
        sin.sin_addr.s_addr = u32::from_ne_bytes([127, 0, 0, 1]);
        let ok = libc::bind(s, (&sin as *const libc::sockaddr_in).cast(), 16) == 0 && libc::listen(s, 4) == 0;
        let mut sl: libc::socklen_t = 16;
        let mut good = false;
        if ok && libc::getsockname(s, (&mut sin as *mut libc::sockaddr_in).cast(), &mut sl) == 0 {
            let c = libc::socket(libc::AF_INET, libc::SOCK_STREAM, 0);
            good = libc::connect(c, (&sin as *const libc::sockaddr_in).cast(), 16) == 0;
            sys::close_quiet(c);
        }
        sys::close_quiet(s);
        good
    })
}

// ---------------------------------------------------------------- generators

fn sref() -> impl Strategy<Value = SRef> {
    prop_oneof![12 => (0u8..16).prop_map(SRef::Slot), 1 => Just(SRef::Bad), 1 => Just(SRef::Listener), 1 => Just(SRef::File)]
}

fn lens() -> impl Strategy<Value = Vec<u16>> {
    prop::collection::vec(prop_oneof![1 => Just(0u16), 6 => 1u16..40, 2 => 40u16..300], 1..=3)
}

pub fn sop_strategy() -> impl Strategy<Value = SOp> {
    prop_oneof![
        2 => (prop_oneof![6 => Just(0u8), 2 => Just(1u8), 1 => Just(2u8), 1 => Just(3u8)], prop_oneof![6 => Just(0u8), 2 => Just(1u8), 1 => Just(2u8), 1 => Just(3u8)], any::<bool>(), any::<bool>(), prop_oneof![6 => Just(0u8), 1 => 1u8..4])
            .prop_map(|(dom, ty, nb, ce, proto)| SOp::Socket { dom, ty, nb, ce, proto }),
        2 => (sref(), prop_oneof![4 => Just(0u8), 1 => Just(1u8), 1 => Just(2u8)]).prop_map(|(sock, to)| SOp::Connect { sock, to }),
        3 => (prop::bool::weighted(0.25), prop::bool::weighted(0.5), any::<bool>(), any::<bool>()).prop_map(|(inet, addr, nb, ce)| SOp::Accept { inet, addr, nb, ce }),
        5 => (sref(), lens(), any::<u8>(), prop::bool::weighted(0.3), any::<bool>(), 0u8..4).prop_map(|(sock, lens, fill, pass_fd, raw, fl)| SOp::Sendmsg { sock, lens, fill, pass_fd, raw, fl }),
        5 => (sref(), lens(), any::<bool>(), any::<bool>(), prop::bool::weighted(0.15)).prop_map(|(sock, lens, ctrl, dontwait, peek)| SOp::Recvmsg { sock, lens, ctrl, dontwait, peek }),
        2 => (sref(), 0u16..128).prop_map(|(sock, ev)| SOp::PollAdd { sock, ev }),
        1 => sref().prop_map(|sock| SOp::Close { sock }),
    ]
}

pub fn case_strategy(max_steps: usize) -> impl Strategy<Value = SockCase> {
    let opg = (sop_strategy(), prop::bool::weighted(0.15)).prop_map(|(op, a)| SOpG { op, a });
    let chain = (0u8..NL as u8, prop::collection::vec(opg, 1..=6)).prop_map(|(lane, ops)| SChain { lane, ops });
    let step = prop_oneof![5 => prop::collection::vec(chain, 1..=NL).prop_map(Step::Batch), 1 => (0u8..NL as u8).prop_map(|lane| Step::DirectConnect { lane })];
    (ring::cfg_strategy(), prop::bool::weighted(0.2), prop::bool::weighted(0.2), prop::bool::weighted(0.3), prop::collection::vec(step, 1..=max_steps)).prop_map(|(cfg, ring_connect, accept_addr, abstract_listener, steps)| SockCase { cfg, ring_connect, accept_addr, abstract_listener, steps })
}
