//! Harness binary for property C18. `c18 C18 [--seed N --worker I --nworkers N --tier T --out F --replay F]`.
mod check;

fn main() {
    vh::runner::main_for(|ctx| check::run(ctx));
}
